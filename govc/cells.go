package main

// Private cells: variables captured by closures are heap Allocs in go/ssa. When such a cell's address
// is only ever loaded from, stored to, or bound into closures (which in turn only load/store it), no
// other code can reach it, so it is modelled like a local: calls with unknown effects leave it alone.

import (
	"golang.org/x/tools/go/ssa"
)

func (e *Engine) privateCell(a *ssa.Alloc) bool {
	if v, ok := e.privMemo[a]; ok {
		return v
	}
	e.privMemo[a] = false // cycles: conservative
	v := a.Heap && addrIsConfined(a, 0)
	e.privMemo[a] = v
	return v
}

// addrIsConfined: every use of the address value v is a load, a store *to* it, a field/index address
// (itself confined) or a closure binding whose free variable is confined in the closure body.
func addrIsConfined(v ssa.Value, depth int) bool {
	if depth > 4 || v.Referrers() == nil {
		return false
	}
	for _, ref := range *v.Referrers() {
		switch r := ref.(type) {
		case *ssa.DebugRef:
		case *ssa.UnOp:
			// load
		case *ssa.Store:
			if r.Val == v {
				return false
			}
		case *ssa.FieldAddr:
			if !addrIsConfined(r, depth+1) {
				return false
			}
		case *ssa.IndexAddr:
			if r.X != v || !addrIsConfined(r, depth+1) {
				return false
			}
		case *ssa.MakeClosure:
			fn := r.Fn.(*ssa.Function)
			for i, b := range r.Bindings {
				if b == v {
					if i >= len(fn.FreeVars) || !addrIsConfined(fn.FreeVars[i], depth+1) {
						return false
					}
				}
			}
		case *ssa.Call:
			// passed to a statically known function that itself only loads/stores through it
			callee := r.Call.StaticCallee()
			if callee == nil || len(callee.Blocks) == 0 || r.Call.IsInvoke() {
				return false
			}
			for i, a := range r.Call.Args {
				if a == v {
					if i >= len(callee.Params) || !addrIsConfined(callee.Params[i], depth+1) {
						return false
					}
				}
			}
		default:
			return false
		}
	}
	return true
}

// freeVarWritten: does the closure (or a closure nested in it) store through free variable i?
func freeVarWritten(fn *ssa.Function, i int, depth int) bool {
	if depth > 4 || i >= len(fn.FreeVars) {
		return true
	}
	return addrWritten(fn.FreeVars[i], depth)
}

func addrWritten(v ssa.Value, depth int) bool {
	if v.Referrers() == nil {
		return true
	}
	for _, ref := range *v.Referrers() {
		switch r := ref.(type) {
		case *ssa.Store:
			if r.Addr == v {
				return true
			}
		case *ssa.FieldAddr:
			if addrWritten(r, depth+1) {
				return true
			}
		case *ssa.IndexAddr:
			if addrWritten(r, depth+1) {
				return true
			}
		case *ssa.MakeClosure:
			fn := r.Fn.(*ssa.Function)
			for i, b := range r.Bindings {
				if b == v && freeVarWritten(fn, i, depth+1) {
					return true
				}
			}
		}
	}
	return false
}

// closureCellMods: a call to a closure may write the private cells it captured.
func (f *Frame) closureCellMods(cc *ssa.CallCommon, callee *ssa.Function, ms *modSet) {
	mark := func(fn *ssa.Function, bindings []Val, ssaBindings []ssa.Value) {
		for i := range fn.FreeVars {
			var a *ssa.Alloc
			if i < len(bindings) {
				if lv, ok := bindings[i].(LocVal); ok && lv.kind == locLocal {
					a = lv.alloc
				}
			} else if i < len(ssaBindings) {
				a, _ = ssaBindings[i].(*ssa.Alloc)
			}
			if a != nil && freeVarWritten(fn, i, 0) {
				ms.locals[a] = append(ms.locals[a], nil)
			}
		}
	}
	// the callee itself
	if v, ok := f.vals[cc.Value]; ok {
		if cv, ok := v.(ClosureVal); ok {
			mark(cv.Fn, cv.Bindings, nil)
		}
	} else if mc, ok := cc.Value.(*ssa.MakeClosure); ok {
		mark(mc.Fn.(*ssa.Function), nil, mc.Bindings)
	}
	// closures passed as arguments (they may be invoked by the callee)
	for _, a := range cc.Args {
		if v, ok := f.vals[a]; ok {
			if cv, ok := v.(ClosureVal); ok {
				mark(cv.Fn, cv.Bindings, nil)
			}
		} else if mc, ok := a.(*ssa.MakeClosure); ok {
			mark(mc.Fn.(*ssa.Function), nil, mc.Bindings)
		}
	}
}

// havocClosureCells: a closure handed to code we do not follow may run and write its captured cells.
func (f *Frame) havocClosureCells(st *State, args []Val) {
	for _, a := range args {
		cv, ok := a.(ClosureVal)
		if !ok {
			continue
		}
		for i, b := range cv.Bindings {
			if lv, ok := b.(LocVal); ok && lv.kind == locLocal && freeVarWritten(cv.Fn, i, 0) {
				if cur, ok := st.locals[lv.alloc]; ok {
					st.locals[lv.alloc] = f.ctx.fresh("cell", cur.S)
				}
			}
		}
	}
}
