package main

// Assumed contracts ("models") for functions outside /repo. Every model that is used is recorded in
// ctx.trusted and ends up in the evidence file under trusted_base.

import (
	"go/token"
	"go/types"

	"golang.org/x/tools/go/ssa"
)

type externModel func(f *Frame, st *State, r *Term, fn *ssa.Function, args []Val, pos token.Pos) Val

var externModels map[string]externModel

func init() {
	externModels = map[string]externModel{
		"fmt.Errorf":        modelNonNilError,
		"errors.New":        modelNonNilError,
		"strings.EqualFold": modelEqualFold,
		"sort.Slice":        modelSortSlice,
		"sort.SliceStable":  modelSortSlice,
		"sort.Strings":      modelSortSlice,
		"github.com/google/go-cmp/cmp.Equal": modelCmpEqual,
	}
}

func trust(f *Frame, what string) { f.ctx.trusted["assumed: "+what] = true }

func modelNonNilError(f *Frame, st *State, r *Term, fn *ssa.Function, args []Val, pos token.Pos) Val {
	trust(f, fullName(fn)+" returns a non-nil error and has no other effect")
	v := f.ctx.fresh("err", SAny)
	f.ctx.assume(Neq(v, Atom("anynil", SAny)))
	return v
}

func modelEqualFold(f *Frame, st *State, r *Term, fn *ssa.Function, args []Val, pos token.Pos) Val {
	trust(f, "strings.EqualFold is an equivalence relation coarser than ==")
	a, b := f.asTerm(args[0]), f.asTerm(args[1])
	res := f.ctx.uf("eqfold", SBool, a, b)
	f.ctx.assume(Implies(Eq(a, b), res))
	return res
}

func modelCmpEqual(f *Frame, st *State, r *Term, fn *ssa.Function, args []Val, pos token.Pos) Val {
	trust(f, "cmp.Equal is a pure function of its arguments (structural equality), true on identical values")
	a, b := f.asTerm(args[0]), f.asTerm(args[1])
	res := f.ctx.fresh("cmpEqual", SBool)
	f.ctx.assume(Implies(Eq(a, b), res))
	return res
}

// modelSortSlice: the slice's elements are permuted in place; nothing else changes.
func modelSortSlice(f *Frame, st *State, r *Term, fn *ssa.Function, args []Val, pos token.Pos) Val {
	trust(f, fullName(fn)+" permutes the elements of its slice argument in place and touches nothing else (sortedness is not used)")
	// the first argument is a slice (sort.Strings) or an interface holding one (sort.Slice)
	pt := fn.Signature.Params().At(0).Type()
	if _, isIface := pt.Underlying().(*types.Interface); isIface {
		// without the dynamic type we cannot name the component: forget all element heaps
		f.havocTop(st)
		return TupleVal{}
	}
	s := f.asTerm(args[0])
	et := pt.Underlying().(*types.Slice).Elem()
	es := f.sortOf(et)
	f.permuteSlice(st, s, es)
	return TupleVal{}
}

func (f *Frame) permuteSlice(st *State, s *Term, es Sort) {
	en := compE(es)
	E := f.ctx.comp(st, en, ArrS(SInt, ArrS(SInt, es)))
	old := f.ctx.name("sort_old", Select(E, SlcBase(s)))
	ne := f.ctx.fresh("sorted", ArrS(SInt, es))
	f.ctx.nfresh++
	perm := f.ctx.declFun(q("perm!"+itoa(f.ctx.nfresh)), []Sort{SInt}, SInt)
	inv := f.ctx.declFun(q("perminv!"+itoa(f.ctx.nfresh)), []Sort{SInt}, SInt)
	i := Atom("i!perm", SInt)
	off, ln := SlcOff(s), SlcLen(s)
	inr := func(x *Term) *Term { return And(Le(IntLit(0), x), Lt(x, ln)) }
	pi := App(perm, SInt, i)
	ii := App(inv, SInt, i)
	f.ctx.assume(Forall([]*Term{i}, Implies(inr(i), And(inr(pi), Eq(Select(ne, Slot(off, i)), Select(old, Slot(off, pi))), Eq(App(inv, SInt, pi), i))), []*Term{pi}))
	f.ctx.assume(Forall([]*Term{i}, Implies(inr(i), And(inr(ii), Eq(App(perm, SInt, ii), i))), []*Term{ii}))
	x := Atom("x!perm", SInt)
	f.ctx.assume(Forall([]*Term{x}, Implies(Or(Lt(x, off), Ge(x, Add(off, ln))), Eq(Select(ne, x), Select(old, x))), []*Term{Select(ne, x)}))
	st.heap[en] = f.ctx.name("E", Store(E, SlcBase(s), ne))
}

func itoa(i int) string {
	if i == 0 {
		return "0"
	}
	s := ""
	for i > 0 {
		s = string(rune('0'+i%10)) + s
		i /= 10
	}
	return s
}

// pureExtern models a call into a side-effect-free library package: a deterministic function of its
// scalar arguments when all arguments are scalars, otherwise an unconstrained result.
func (f *Frame) pureExtern(st *State, fn *ssa.Function, args []Val) Val {
	name := fullName(fn)
	trust(f, name+" has no effect on memory visible to cog, terminates and does not panic")
	sig := fn.Signature
	scalar := !sig.Variadic()
	var ts []*Term
	for _, a := range args {
		t, ok := a.(*Term)
		if !ok || !(t.S == SStr || t.S == SInt || t.S == SBool || t.S == SFlt) {
			scalar = false
			break
		}
		ts = append(ts, t)
	}
	if scalar && len(ts) > 0 {
		for i := 0; i < len(args); i++ {
			switch sig.Params().At(i).Type().Underlying().(type) {
			case *types.Basic:
			default:
				scalar = false
			}
		}
	}
	res := sig.Results()
	if scalar && len(ts) > 0 && res.Len() >= 1 {
		var out TupleVal
		for i := 0; i < res.Len(); i++ {
			rt := res.At(i).Type()
			out = append(out, f.ctx.uf("ext!"+name+"!"+itoa(i), f.sortOf(rt), ts...))
		}
		if len(out) == 1 {
			return out[0]
		}
		return out
	}
	return f.freshResults(st, sig, "ext")
}
