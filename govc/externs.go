package main

// Assumed contracts ("models") for functions outside /repo. Every model that is used is recorded in
// ctx.trusted and ends up in the evidence file under trusted_base.

import (
	"fmt"
	"go/token"
	"go/types"
	"strings"

	"golang.org/x/tools/go/ssa"
)

type externModel func(f *Frame, st *State, r *Term, fn *ssa.Function, args []Val, pos token.Pos) Val

var externModels = map[string]externModel{}

func init() {
	for k, v := range map[string]externModel{
		"fmt.Errorf":        modelNonNilError,
		"errors.New":        modelNonNilError,
		"errors.Join":       modelErrorsJoin,
		"strings.EqualFold": modelEqualFold,
		"sort.Slice":        modelSortSlice,
		"sort.SliceStable":  modelSortSlice,
		"sort.Strings":      modelSortSlice,
		"github.com/google/go-cmp/cmp.Equal": modelCmpEqual,
		"strings.Split": modelStringsSplit,
	} {
		externModels[k] = v
	}
}

func trust(f *Frame, what string) { f.ctx.trusted["assumed: "+what] = true }

func modelNonNilError(f *Frame, st *State, r *Term, fn *ssa.Function, args []Val, pos token.Pos) Val {
	trust(f, fullName(fn)+" returns a non-nil error and has no other effect")
	v := f.ctx.fresh("err", SAny)
	f.ctx.assume(Neq(v, Atom("anynil", SAny)))
	return v
}

func modelEqualFold(f *Frame, st *State, r *Term, fn *ssa.Function, args []Val, pos token.Pos) Val {
	trust(f, "strings.EqualFold is an equivalence relation coarser than ==")
	a, b := f.asTerm(args[0]), f.asTerm(args[1])
	res := f.ctx.uf("eqfold", SBool, a, b)
	f.ctx.assume(Implies(Eq(a, b), res))
	return res
}

func modelStringsSplit(f *Frame, st *State, r *Term, fn *ssa.Function, args []Val, pos token.Pos) Val {
	trust(f, "strings.Split returns a fresh slice with at least one element when the separator is not empty, and has no other effect")
	res := f.ctx.fresh("split", SSlc)
	f.ctx.assume(And(Ge(SlcBase(res), st.alloc), Gt(SlcBase(res), IntLit(0)), Eq(SlcOff(res), IntLit(0)), Le(SlcLen(res), SlcCap(res)), Ge(SlcLen(res), IntLit(0))))
	sep := f.asTerm(args[1])
	f.ctx.assume(Implies(Neq(sep, f.ctx.strLit("")), Ge(SlcLen(res), IntLit(1))))
	st.alloc = Add(SlcBase(res), IntLit(1))
	return res
}

func modelCmpEqual(f *Frame, st *State, r *Term, fn *ssa.Function, args []Val, pos token.Pos) Val {
	trust(f, "cmp.Equal is a pure function of its arguments (structural equality), true on identical values")
	a, b := f.asTerm(args[0]), f.asTerm(args[1])
	res := f.ctx.fresh("cmpEqual", SBool)
	f.ctx.assume(Implies(Eq(a, b), res))
	return res
}

// modelSortSlice: the slice's elements are permuted in place; nothing else changes. The comparison
// closure is called with indices inside the slice only (its precondition is checked for those).
func modelSortSlice(f *Frame, st *State, r *Term, fn *ssa.Function, args []Val, pos token.Pos) Val {
	trust(f, fullName(fn)+" permutes the elements of its slice argument in place, touches nothing else, and calls less(i, j) only with 0 <= i, j < len (sortedness is not used)")
	pt := fn.Signature.Params().At(0).Type()
	a0 := f.asTerm(args[0])
	var s *Term
	var et types.Type
	if isIfaceT(pt) {
		var id int
		if strings.HasPrefix(a0.Op, "box!") && len(a0.Args) == 1 {
			fmt.Sscanf(a0.Op, "box!%d", &id)
		}
		if id < 1 || id > len(f.ctx.eng.sorts.typeByID) {
			f.havocTop(st)
			return TupleVal{}
		}
		sl, ok := f.ctx.eng.sorts.typeByID[id-1].Underlying().(*types.Slice)
		if !ok {
			f.havocTop(st)
			return TupleVal{}
		}
		s, et = a0.Args[0], sl.Elem()
	} else {
		s, et = a0, pt.Underlying().(*types.Slice).Elem()
	}
	es := f.sortOf(et)
	if len(args) > 1 {
		var cv *ClosureVal
		switch x := args[1].(type) {
		case ClosureVal:
			cv = &x
		case *Term:
			if c, ok := f.ctx.closures[x.Op]; ok {
				cv = &c
			}
		}
		if cv != nil {
			if ct := f.ctx.eng.contracts.Funcs[funcKey(cv.Fn)]; ct != nil && len(cv.Fn.Params) == 2 {
				// arbitrary intermediate contents of the slice
				mid := st.clone()
				f.havocComps(mid, map[string]Sort{f.eName(et): ArrS(SInt, ArrS(SInt, es))})
				i, j := f.ctx.fresh("sort_i", SInt), f.ctx.fresh("sort_j", SInt)
				inr := And(Le(IntLit(0), i), Lt(i, SlcLen(s)), Le(IntLit(0), j), Lt(j, SlcLen(s)))
				cf := &Frame{ctx: f.ctx, fn: cv.Fn, tmap: f.tmapFor(cv.Fn), vals: map[ssa.Value]Val{}, parent: f, depth: f.depth + 1, ghosts: map[string]SVal{}, curKey: map[*ssa.Range]*Term{}}
				cf.vals[cv.Fn.Params[0]] = i
				cf.vals[cv.Fn.Params[1]] = j
				for k, fv := range cv.Fn.FreeVars {
					if k < len(cv.Bindings) {
						cf.vals[fv] = cv.Bindings[k]
					}
				}
				cf.entry = mid
				for k, rq := range ct.Requires {
					se := cf.specEnv(mid, mid)
					se.positive = false
					label := rq.Label
					if label == "" {
						label = itoa(k)
					}
					f.check("pre", "->"+shortKey(ct.Key)+":"+label, And(r, inr), se.evalBool(rq.Expr), pos)
				}
			}
		}
	}
	f.frameCheckCall(st, r, shortKey(funcKey(fn)), []modLoc{{comp: f.eName(et), srt: ArrS(SInt, ArrS(SInt, es)), ref: SlcBase(s)}}, true, pos)
	f.permuteSlice(st, s, es, et)
	return TupleVal{}
}

func (f *Frame) permuteSlice(st *State, s *Term, es Sort, et types.Type) {
	en := f.eName(et)
	E := f.ctx.comp(st, en, ArrS(SInt, ArrS(SInt, es)))
	old := f.ctx.name("sort_old", Select(E, SlcBase(s)))
	ne := f.ctx.fresh("sorted", ArrS(SInt, es))
	f.ctx.nfresh++
	perm := f.ctx.declFun(q("perm!"+itoa(f.ctx.nfresh)), []Sort{SInt}, SInt)
	inv := f.ctx.declFun(q("perminv!"+itoa(f.ctx.nfresh)), []Sort{SInt}, SInt)
	f.ctx.skolems["perm"] = append(f.ctx.skolems["perm"], &skolemFn{name: perm, sorts: []Sort{SInt}, res: SInt, site: "sort"})
	f.ctx.skolems["perminv"] = append(f.ctx.skolems["perminv"], &skolemFn{name: inv, sorts: []Sort{SInt}, res: SInt, site: "sort"})
	i := Atom("i!perm", SInt)
	off, ln := SlcOff(s), SlcLen(s)
	inr := func(x *Term) *Term { return And(Le(IntLit(0), x), Lt(x, ln)) }
	pi := App(perm, SInt, i)
	ii := App(inv, SInt, i)
	f.ctx.assume(Forall([]*Term{i}, Implies(inr(i), And(inr(pi), Eq(Select(ne, Slot(off, i)), Select(old, Slot(off, pi))), Eq(App(inv, SInt, pi), i))), []*Term{pi}))
	f.ctx.assume(Forall([]*Term{i}, Implies(inr(i), And(inr(ii), Eq(App(perm, SInt, ii), i))), []*Term{ii}))
	x := Atom("x!perm", SInt)
	f.ctx.assume(Forall([]*Term{x}, Implies(Or(Lt(x, off), Ge(x, Add(off, ln))), Eq(Select(ne, x), Select(old, x))), []*Term{Select(ne, x)}))
	st.heap[en] = f.ctx.name("E", Store(E, SlcBase(s), ne))
}

func itoa(i int) string {
	if i == 0 {
		return "0"
	}
	s := ""
	for i > 0 {
		s = string(rune('0'+i%10)) + s
		i /= 10
	}
	return s
}

// pureExtern models a call into a side-effect-free library package: a deterministic function of its
// scalar arguments when all arguments are scalars, otherwise an unconstrained result.
func (f *Frame) pureExtern(st *State, fn *ssa.Function, args []Val) Val {
	name := fullName(fn)
	trust(f, name+" has no effect on memory visible to cog, terminates and does not panic")
	sig := fn.Signature
	scalar := !sig.Variadic()
	var ts []*Term
	for _, a := range args {
		t, ok := a.(*Term)
		if !ok || !(t.S == SStr || t.S == SInt || t.S == SBool || t.S == SFlt) {
			scalar = false
			break
		}
		ts = append(ts, t)
	}
	if sig.Recv() != nil {
		// methods of a named basic type (json.Number is a string) are functions of the receiver value
		if _, isBasic := sig.Recv().Type().Underlying().(*types.Basic); !isBasic {
			scalar = false
		}
	}
	if scalar && len(ts) > 0 {
		off := 0
		if sig.Recv() != nil {
			off = 1
		}
		for i := 0; i+off < len(args) && i < sig.Params().Len(); i++ {
			switch sig.Params().At(i).Type().Underlying().(type) {
			case *types.Basic:
			default:
				scalar = false
			}
		}
	}
	res := sig.Results()
	if name == "regexp.(*Regexp).String" && len(args) == 1 {
		// the source text of a compiled expression is fixed at compile time: a function of the pointer
		if t, ok := args[0].(*Term); ok {
			trust(f, "regexp.(*Regexp).String returns the same text for the same compiled expression")
			return f.ctx.uf("ext!regexp.String", SStr, t)
		}
	}
	if name == "fmt.Sprintf" && !f.top().relational {
		if v, ok := f.modelSprintf(st, sig.Params().At(sig.Params().Len()-1).Type().(*types.Slice).Elem(), args); ok {
			return v
		}
	}
	if f.top().relational && !scalar && sig.Variadic() && sig.Recv() == nil {
		// relational checks: a variadic pure function (fmt.Sprintf, ...) applied to a short literal
		// argument list is a deterministic function of the format and the boxed arguments
		var us []*Term
		okAll := true
		for i, a := range args {
			t, isT := a.(*Term)
			if !isT {
				okAll = false
				break
			}
			if i == len(args)-1 && t.S == SSlc {
				n, isLit := SlcLen(t).intVal()
				if !isLit || n > 6 {
					okAll = false
					break
				}
				et := sig.Params().At(sig.Params().Len() - 1).Type().(*types.Slice).Elem()
				es := f.sortOf(et)
				E := f.ctx.comp(st, f.eName(et), ArrS(SInt, ArrS(SInt, es)))
				for j := int64(0); j < n; j++ {
					us = append(us, Select(Select(E, SlcBase(t)), Slot(SlcOff(t), IntLit(j))))
				}
				continue
			}
			us = append(us, t)
		}
		if okAll && len(us) > 0 && res.Len() >= 1 {
			var out TupleVal
			for i := 0; i < res.Len(); i++ {
				out = append(out, f.ctx.uf(fmt.Sprintf("ext!%s!%d!%d", name, i, len(us)), f.sortOf(res.At(i).Type()), us...))
			}
			if len(out) == 1 {
				return out[0]
			}
			return out
		}
	}
	if scalar && len(ts) > 0 && res.Len() >= 1 {
		var out TupleVal
		for i := 0; i < res.Len(); i++ {
			rt := res.At(i).Type()
			out = append(out, f.ctx.uf("ext!"+name+"!"+itoa(i), f.sortOf(rt), ts...))
			f.ctx.eng.extSorts["ext!"+name+"!"+itoa(i)] = f.sortOf(rt)
		}
		if len(out) == 1 {
			return out[0]
		}
		return out
	}
	return f.freshResults(st, sig, "ext")
}

// confinedPkgs: library packages whose functions only write through the pointers they are handed
// (receiver included) and into memory they allocate themselves. Their own objects are opaque: cog
// observes them only through further library calls, whose results are unconstrained.
var confinedPkgs = map[string]bool{
	"encoding/json": true, "bytes": true, "io": true, "bufio": true, "os": true, "gopkg.in/yaml.v3": true, "io/fs": true,
}

func (e *Engine) externConfined(fn *ssa.Function) bool {
	var p *types.Package
	if fn.Pkg != nil {
		p = fn.Pkg.Pkg
	} else if fn.Object() != nil {
		p = fn.Object().Pkg()
	}
	return p != nil && confinedPkgs[p.Path()]
}

// confinedExtern: havoc the root objects behind pointer arguments only; everything else is framed.
func (f *Frame) confinedExtern(st *State, r *Term, fn *ssa.Function, args []Val, argTypes []types.Type) Val {
	name := fullName(fn)
	trust(f, name+" writes only through the pointers it is given (and memory it allocates), terminates and does not panic")
	var locs []modLoc
	addPtr := func(ref *Term, pt types.Type) {
		p, ok := pt.Underlying().(*types.Pointer)
		if !ok {
			return
		}
		et := p.Elem()
		if _, isStruct := et.Underlying().(*types.Struct); isStruct {
			si := f.structInfo(et)
			for i := range si.Fields {
				locs = append(locs, modLoc{comp: compF(si, i), srt: ArrS(SInt, si.Fields[i].Sort), ref: ref})
			}
			return
		}
		if at, isArr := et.Underlying().(*types.Array); isArr {
			es := f.sortOf(at.Elem())
			locs = append(locs, modLoc{comp: f.eName(at.Elem()), srt: ArrS(SInt, ArrS(SInt, es)), ref: ref})
			return
		}
		s := f.sortOf(et)
		locs = append(locs, modLoc{comp: f.pName(et), srt: ArrS(SInt, s), ref: ref})
	}
	for i, a := range args {
		t, ok := a.(*Term)
		if !ok {
			if lv, isLoc := a.(LocVal); isLoc && lv.kind == locHeap && len(lv.path) == 0 {
				t = lv.ref
			} else {
				continue
			}
		}
		at := f.subst(argTypes[i])
		if _, isTP := types.Unalias(at).(*types.TypeParam); isTP {
			continue
		}
		switch at.Underlying().(type) {
		case *types.Pointer:
			addPtr(t, at)
		case *types.Slice:
			es := f.sortOf(at.Underlying().(*types.Slice).Elem())
			locs = append(locs, modLoc{comp: f.eName(at.Underlying().(*types.Slice).Elem()), srt: ArrS(SInt, ArrS(SInt, es)), ref: SlcBase(t)})
		case *types.Interface:
			// a boxed pointer: box!<id>(ref)
			if strings.HasPrefix(t.Op, "box!") && len(t.Args) == 1 {
				var id int
				fmt.Sscanf(t.Op, "box!%d", &id)
				if id >= 1 && id <= len(f.ctx.eng.sorts.typeByID) {
					bt := f.ctx.eng.sorts.typeByID[id-1]
					switch bt.Underlying().(type) {
					case *types.Pointer:
						addPtr(t.Args[0], bt)
					case *types.Slice:
						es := f.sortOf(bt.Underlying().(*types.Slice).Elem())
						locs = append(locs, modLoc{comp: f.eName(bt.Underlying().(*types.Slice).Elem()), srt: ArrS(SInt, ArrS(SInt, es)), ref: SlcBase(t.Args[0])})
					}
				}
			} else if t.Op != "anynil" {
				// unknown dynamic value: cannot confine
				f.havocTop(st)
				return f.freshResults(st, fn.Signature, "ext")
			}
		}
	}
	if len(locs) > 0 {
		f.frameCheckCall(st, r, shortKey(funcKey(fn)), locs, true, token.NoPos)
		comps := map[string]Sort{}
		for _, l := range locs {
			comps[l.comp] = l.srt
		}
		old := copyHeap(st.heap)
		oldBase := st.base
		limit := st.alloc
		f.havocComps(st, comps)
		for k, srt := range comps {
			before, ok := old[k]
			if !ok {
				before = f.ctx.constant(fmt.Sprintf("%s@%d", k, oldBase), srt)
			}
			f.ctx.assume(f.frameAxiom(k, before, st.heap[k], locs, limit))
		}
	} else {
		na := f.ctx.fresh("alloc", SInt)
		f.ctx.assume(Ge(na, st.alloc))
		st.alloc = na
	}
	return f.freshResults(st, fn.Signature, "ext")
}

// modelSprintf: fmt.Sprintf with a literal format made of text and %s verbs only, applied to a literal
// number of arguments: when every argument is a plain string the result is the concatenation the format
// describes (the documented behaviour of %s on strings); nothing is known otherwise.
func (f *Frame) modelSprintf(st *State, anyT types.Type, args []Val) (Val, bool) {
	if len(args) != 2 {
		return nil, false
	}
	ft, ok1 := args[0].(*Term)
	vs, ok2 := args[1].(*Term)
	if !ok1 || !ok2 || vs.S != SSlc {
		return nil, false
	}
	format, found := "", false
	for lit, t := range f.ctx.strLits {
		if t == ft || t.String() == ft.String() {
			format, found = lit, true
		}
	}
	n, isLit := SlcLen(vs).intVal()
	if !found || !isLit || n > 6 {
		return nil, false
	}
	var segs []string
	rest := format
	for {
		k := strings.Index(rest, "%")
		if k < 0 {
			segs = append(segs, rest)
			break
		}
		if k+1 >= len(rest) || rest[k+1] != 's' {
			return nil, false
		}
		segs = append(segs, rest[:k])
		rest = rest[k+2:]
	}
	if int64(len(segs)-1) != n {
		return nil, false
	}
	trust(f, "fmt.Sprintf with a format of text and %s verbs applied to strings is their concatenation")
	E := f.ctx.comp(st, f.eName(anyT), ArrS(SInt, ArrS(SInt, SAny)))
	sid := f.ctx.eng.sorts.TypeID(types.Typ[types.String])
	res := f.ctx.fresh("sprintf", SStr)
	allStr := True
	var cat *Term
	add := func(t *Term) {
		if cat == nil {
			cat = t
		} else {
			cat = f.ctx.uf("strcat", SStr, cat, t)
		}
	}
	for j := int64(0); j < n; j++ {
		if segs[j] != "" {
			add(f.ctx.strLit(segs[j]))
		}
		e := Select(Select(E, SlcBase(vs)), Slot(SlcOff(vs), IntLit(j)))
		allStr = And(allStr, Eq(App("typeof", SInt, e), IntLit(int64(sid))))
		add(f.ctx.uf(fmt.Sprintf("unbox!%d", sid), SStr, e))
	}
	if segs[n] != "" {
		add(f.ctx.strLit(segs[n]))
	}
	if cat == nil {
		cat = f.ctx.strLit("")
	}
	f.ctx.assume(Implies(allStr, Eq(res, cat)))
	return res, true
}

// modelErrorsJoin: errors.Join(errs...) is nil exactly when every argument is nil (documented); for a
// literal argument list the condition is spelled out, otherwise nothing is known about the result.
func modelErrorsJoin(f *Frame, st *State, r *Term, fn *ssa.Function, args []Val, pos token.Pos) Val {
	trust(f, "errors.Join returns nil exactly when all its arguments are nil and has no other effect")
	v := f.ctx.fresh("err", SAny)
	if len(args) == 1 {
		if vs, ok := args[0].(*Term); ok && vs.S == SSlc {
			if n, isLit := SlcLen(vs).intVal(); isLit && n <= 6 {
				et := fn.Signature.Params().At(0).Type().(*types.Slice).Elem()
				E := f.ctx.comp(st, f.eName(et), ArrS(SInt, ArrS(SInt, SAny)))
				allNil := True
				for j := int64(0); j < n; j++ {
					allNil = And(allNil, Eq(Select(Select(E, SlcBase(vs)), Slot(SlcOff(vs), IntLit(j))), Atom("anynil", SAny)))
				}
				f.ctx.assume(Eq(Eq(v, Atom("anynil", SAny)), allNil))
			}
		}
	}
	return v
}
