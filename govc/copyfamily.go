package main

// C18: copy relations derived mechanically from the go/types declaration of the copied type.
//
// For every method named DeepCopy in the module the engine synthesises a contract:
//   requires receiver != nil                       (pointer receivers)
//   modifies nothing                               (frame obligations on every store)
//   ensures  one obligation per declared field of the result type: copy:<T>.DeepCopy:field:<f>
// The relation for a field is determined by its type:
//   scalars, strings, interfaces (treated as immutable atoms), funcs: equal
//   *U:        both nil, or both non-nil with the copy's pointer fresh and rel_U on the pointees
//   []U:       equal length (nil ~ empty), a fresh backing array if non-empty, rel_U element-wise
//   map[K]U:   a fresh map if non-nil, same domain (nil ~ empty), rel_U value-wise
//   struct U with its own DeepCopy method: the abstract relation copyrel!U(a, b), which only U's
//              DeepCopy establishes (modular rule = structural induction over the IR tree)
//   other struct U: the relation of U's fields (pointer-free structs: equality)
// In addition the function may only store into memory it allocated itself ("own"): neither into
// pre-existing memory nor into memory handed back by a callee, so relations established earlier in
// the activation cannot be invalidated later.

import (
	"fmt"
	"go/types"
	"sort"
	"strings"

	"golang.org/x/tools/go/ssa"
)

const coComp = "$calleeOwned"

func (e *Engine) setupCopyFamily() {
	e.copyMethods = map[string]*ssa.Function{}
	for key, fn := range e.fnByKey {
		if fn.Name() != "DeepCopy" || fn.Signature.Recv() == nil || !e.inModule(fn) || fn.Parent() != nil {
			continue
		}
		rt := fn.Signature.Recv().Type()
		if p, ok := rt.(*types.Pointer); ok {
			rt = p.Elem()
		}
		e.copyMethods[e.sorts.typeName(rt)] = fn
		ct := e.contracts.Funcs[key]
		if ct == nil {
			ct = &Contract{Key: key, Loops: map[int]*LoopContract{}, File: "(synthesised from the type declaration)"}
			e.contracts.Funcs[key] = ct
		}
		ct.Fresh = true
		ct.CopyFamily = true
		has := false
		for _, p := range ct.Props {
			if p == "C18" {
				has = true
			}
		}
		if !has {
			ct.Props = append(ct.Props, "C18")
		}
	}
}

func (e *Engine) copyMethodFor(t types.Type) *ssa.Function {
	if e.copyMethods == nil {
		return nil
	}
	return e.copyMethods[e.sorts.typeName(types.Unalias(t))]
}

func isPointerFree(t types.Type, seen map[string]bool) bool {
	switch u := t.Underlying().(type) {
	case *types.Basic:
		return true
	case *types.Interface:
		return true // payloads behind `any` are treated as immutable atoms (stated assumption)
	case *types.Signature:
		return true
	case *types.Struct:
		k := t.String()
		if seen[k] {
			return true
		}
		seen[k] = true
		for i := 0; i < u.NumFields(); i++ {
			if !isPointerFree(u.Field(i).Type(), seen) {
				return false
			}
		}
		return true
	case *types.Array:
		return isPointerFree(u.Elem(), seen)
	}
	return false
}

// copyRel: b (read in state cur) is a faithful, independent copy of a (read in state old).
// top=true unfolds one level even if the type has its own DeepCopy method.
func (f *Frame) copyRel(t types.Type, a, b *Term, old, cur *State, top bool, depth int) *Term {
	t = f.subst(t)
	if depth > 10 {
		panic(unsupported("copy relation nested too deeply at " + t.String()))
	}
	if isPointerFree(t, map[string]bool{}) {
		return Eq(a, b)
	}
	switch u := t.Underlying().(type) {
	case *types.Struct:
		if !top && f.ctx.eng.copyMethodFor(t) != nil {
			abs := f.ctx.uf("copyrel!"+f.tkey(t), SBool, a, b)
			if f.copyUnfold > 0 && true {
				// where a copy relation is ASSUMED (a callee's DeepCopy contract), a nested relation is unfolded one
				// more level: the caller may store into what the nested copy allocated (duplicate.Type.Struct.Fields = ...)
				f.copyUnfold--
				si := f.structInfo(t)
				var cs []*Term
				for i := range si.Fields {
					cs = append(cs, f.copyRel(u.Field(i).Type(), si.Get(a, i), si.Get(b, i), old, cur, false, depth+1))
				}
				f.copyUnfold++
				return And(append([]*Term{abs}, cs...)...)
			}
			return abs
		}
		si := f.structInfo(t)
		var cs []*Term
		for i := range si.Fields {
			cs = append(cs, f.copyRel(u.Field(i).Type(), si.Get(a, i), si.Get(b, i), old, cur, false, depth+1))
		}
		return And(cs...)
	case *types.Pointer:
		et := u.Elem()
		la := LocVal{kind: locHeap, ref: a, rootT: et, T: et}
		lb := LocVal{kind: locHeap, ref: b, rootT: et, T: et}
		pa, pb := f.readRoot(old, la), f.readRoot(cur, lb)
		return And(Eq(Eq(a, IntLit(0)), Eq(b, IntLit(0))),
			Implies(Neq(b, IntLit(0)), And(f.isFresh(b), Lt(b, cur.alloc), f.copyRel(et, pa, pb, old, cur, false, depth+1))))
	case *types.Slice:
		et := u.Elem()
		es := f.sortOf(et)
		Eo := f.ctx.comp(old, f.eName(et), ArrS(SInt, ArrS(SInt, es)))
		En := f.ctx.comp(cur, f.eName(et), ArrS(SInt, ArrS(SInt, es)))
		quantCounter++
		j := Atom(fmt.Sprintf("j!cp%d", quantCounter), SInt)
		ea := Select(Select(Eo, SlcBase(a)), Slot(SlcOff(a), j))
		eb := Select(Select(En, SlcBase(b)), Slot(SlcOff(b), j))
		body := Implies(And(Le(IntLit(0), j), Lt(j, SlcLen(b))), f.copyRel(et, ea, eb, old, cur, false, depth+1))
		// independence also for the empty case: an empty copy may be nil, freshly allocated or a
		// zero-capacity view, but never a slice with spare capacity in memory that existed before (an append
		// to the copy would then write into it)
		return And(Eq(SlcLen(a), SlcLen(b)),
			Implies(Gt(SlcLen(b), IntLit(0)), And(f.isFresh(SlcBase(b)), Lt(SlcBase(b), cur.alloc))),
			Implies(Eq(SlcLen(b), IntLit(0)), Or(Eq(SlcBase(b), IntLit(0)), Eq(SlcCap(b), IntLit(0)), And(f.isFresh(SlcBase(b)), Lt(SlcBase(b), cur.alloc)))),
			Forall([]*Term{j}, body, []*Term{eb}))
	case *types.Map:
		ks, vs := f.sortOf(u.Key()), f.sortOf(u.Elem())
		Do := f.ctx.comp(old, f.mdName(u.Key(), u.Elem()), ArrS(SInt, ArrS(ks, SBool)))
		Dn := f.ctx.comp(cur, f.mdName(u.Key(), u.Elem()), ArrS(SInt, ArrS(ks, SBool)))
		Vo := f.ctx.comp(old, f.mvName(u.Key(), u.Elem()), ArrS(SInt, ArrS(ks, vs)))
		Vn := f.ctx.comp(cur, f.mvName(u.Key(), u.Elem()), ArrS(SInt, ArrS(ks, vs)))
		quantCounter++
		k := Atom(fmt.Sprintf("k!cp%d", quantCounter), ks)
		ha := And(Neq(a, IntLit(0)), Select(Select(Do, a), k))
		hb := And(Neq(b, IntLit(0)), Select(Select(Dn, b), k))
		va, vb := Select(Select(Vo, a), k), Select(Select(Vn, b), k)
		body := And(Eq(ha, hb), Implies(hb, f.copyRel(u.Elem(), va, vb, old, cur, false, depth+1)))
		return And(Implies(Neq(b, IntLit(0)), And(f.isFresh(b), Lt(b, cur.alloc))),
			Forall([]*Term{k}, body, []*Term{Select(Select(Dn, b), k)}))
	case *types.Array:
		panic(unsupported("copy relation for array type " + t.String()))
	}
	return Eq(a, b)
}

// copyObligations: the per-field obligations of a DeepCopy method at its exit.
func (f *Frame) copyObligations(exit *State, results []SVal) []namedTerm {
	fn := f.fn
	recv := fn.Params[0]
	rt := f.subst(recv.Type())
	var a *Term
	var vt types.Type
	if p, ok := rt.Underlying().(*types.Pointer); ok {
		vt = p.Elem()
		a = f.load(f.entry, f.asLoc(f.get(recv), rt))
	} else {
		vt = rt
		a = f.asTerm(f.get(recv))
	}
	if len(results) != 1 {
		panic(unsupported("DeepCopy with several results"))
	}
	b := f.asTerm(results[0].V)
	resT := f.subst(results[0].T)
	var out []namedTerm
	if st, ok := vt.Underlying().(*types.Struct); ok && types.Identical(vt, resT) {
		si := f.structInfo(vt)
		for i := range si.Fields {
			rel := f.copyRel(st.Field(i).Type(), si.Get(a, i), si.Get(b, i), f.entry, exit, false, 1)
			out = append(out, namedTerm{"copy|field:" + st.Field(i).Name(), rel})
		}
		return out
	}
	// non-struct receivers (Path, Schemas): relation on the value as a whole
	if !types.Identical(vt.Underlying(), resT.Underlying()) {
		panic(unsupported("DeepCopy result type differs from receiver type"))
	}
	out = append(out, namedTerm{"copy|value", f.copyRel(resT, a, b, f.entry, exit, true, 1)})
	return out
}

// copyEnsures: what a caller may assume after calling a DeepCopy method.
func (f *Frame) copyEnsures(cf *Frame, target *ssa.Function, pre, post *State, args []Val, res *Term, resT types.Type) *Term {
	recv := target.Params[0]
	rt := cf.subst(recv.Type())
	var a *Term
	var vt types.Type
	if p, ok := rt.Underlying().(*types.Pointer); ok {
		vt = p.Elem()
		a = cf.load(pre, cf.asLoc(args[0], rt))
	} else {
		vt = rt
		a = f.asTerm(args[0])
	}
	// the callee's freshness is relative to its own entry, i.e. the caller's state before the call
	saved := cf.parentEntryOverride
	cf.parentEntryOverride = pre
	defer func() { cf.parentEntryOverride = saved }()
	if !f.top().trackOwn {
		// (not while verifying the DeepCopy family itself: there the nested relations stay abstract)
		cf.copyUnfold = 1
	}
	unfolded := cf.copyRel(resT, a, res, pre, post, true, 1)
	cf.copyUnfold = 0
	if _, ok := vt.Underlying().(*types.Struct); ok && f.ctx.eng.copyMethodFor(vt) != nil {
		return And(f.ctx.uf("copyrel!"+cf.tkey(vt), SBool, a, res), unfolded)
	}
	return unfolded
}

// markCalleeOwned records that the references allocated during a call belong to the callee.
func (f *Frame) markCalleeOwned(st *State, t0, t1 *Term) {
	top := f.top()
	if !top.trackOwn {
		return
	}
	CO := f.ctx.comp(st, coComp, ArrS(SInt, SBool))
	n := f.ctx.fresh("calleeOwned", ArrS(SInt, SBool))
	r := Atom("r!co", SInt)
	f.ctx.assume(Forall([]*Term{r}, Eq(Select(n, r), Or(Select(CO, r), And(Le(t0, r), Lt(r, t1)))), []*Term{Select(n, r)}))
	st.heap[coComp] = n
}

func (f *Frame) isOwn(st *State, ref *Term) *Term {
	CO := f.ctx.comp(st, coComp, ArrS(SInt, SBool))
	return And(f.isFresh(ref), Not(Select(CO, ref)))
}

func sortedKeys(m map[string]*ssa.Function) []string {
	var ks []string
	for k := range m {
		ks = append(ks, k)
	}
	sort.Strings(ks)
	return ks
}

var _ = strings.HasPrefix
