package main

// Write frames: a contract's `modifies` clause lists the only pre-existing locations the function may
// write. Verifying the function checks every write against it (frame obligations); using the
// contract at a call site (and cutting a loop inside a function that has one) yields the frame axiom
// "every other pre-existing location is unchanged".

import (
	"fmt"
	"go/token"
	"go/types"
	"sort"
	"strings"
)

type modLoc struct {
	comp string
	srt  Sort
	ref  *Term
	idx  *Term // nil: the whole object / backing array / map
	// member: a set of objects (the pointees of a slice of pointers, `xs[*].field`): membership of a reference
	member func(r *Term) *Term
}

// evalModLocs evaluates the modifies clause of ct in the callee frame cf at state pre.
func (cf *Frame) evalModLocs(ct *Contract, pre *State) []modLoc {
	var out []modLoc
	for _, item := range ct.Modifies {
		item = strings.TrimSpace(item)
		if item == "" || item == "nothing" || item == "spare-capacity" {
			continue
		}
		if k := strings.Index(item, "[*]."); k > 0 {
			// xs[*].field: the field of every object the slice xs points to
			e, err := ParseSpecExpr(item[:k])
			if err != nil {
				sfail("modifies item %q: %v", item, err)
			}
			fieldName := item[k+len("[*]."):]
			if j := strings.Index(fieldName, "."); j >= 0 {
				fieldName = fieldName[:j] // a nested struct is stored as one value of its first-level field
			}
			se := cf.specEnv(pre, pre)
			se.pol = 0
			x := se.eval(e)
			sl, ok := cf.subst(x.T).Underlying().(*types.Slice)
			if !ok {
				sfail("modifies %s: not a slice", item)
			}
			pt, ok := cf.subst(sl.Elem()).Underlying().(*types.Pointer)
			if !ok {
				// a slice of struct values: xs[*].a.b.p.field - follow value fields a.b to a pointer field p, the
				// location is `field` of every object such a p points to
				segs := strings.Split(item[k+len("[*]."):], ".")
				cur := cf.subst(sl.Elem())
				var accs []func(*Term) *Term
				var ptr *types.Pointer
				n := 0
				for ; n < len(segs) && ptr == nil; n++ {
					if !isStructT(cur) {
						sfail("modifies %s: %s is not a struct value", item, segs[n])
					}
					si := cf.structInfo(cur)
					fi := si.FieldIndex(segs[n])
					if fi < 0 {
						sfail("modifies %s: no field %s", item, segs[n])
					}
					accs = append(accs, func(v *Term) *Term { return si.Get(v, fi) })
					cur = cf.subst(si.Fields[fi].Type)
					if p, isPtr := cur.Underlying().(*types.Pointer); isPtr {
						ptr = p
					}
				}
				if ptr == nil || n >= len(segs) {
					sfail("modifies %s: the path must reach a pointer field followed by a field of its pointee", item)
				}
				psi := cf.structInfo(ptr.Elem())
				pfi := psi.FieldIndex(segs[n])
				if pfi < 0 {
					sfail("modifies %s: no field %s", item, segs[n])
				}
				xs := cf.asTerm(x.V)
				E := cf.ctx.comp(pre, cf.eName(sl.Elem()), ArrS(SInt, ArrS(SInt, cf.sortOf(sl.Elem()))))
				out = append(out, modLoc{comp: compF(psi, pfi), srt: ArrS(SInt, psi.Fields[pfi].Sort), member: func(r *Term) *Term {
					quantCounter++
					sv := Atom(fmt.Sprintf("s!mem%d", quantCounter), SInt)
					v := Select(Select(E, SlcBase(xs)), Slot(SlcOff(xs), sv))
					for _, a := range accs {
						v = a(v)
					}
					return Exists([]*Term{sv}, And(Le(IntLit(0), sv), Lt(sv, SlcLen(xs)), Eq(v, r)))
				}})
				continue
			}
			si := cf.structInfo(pt.Elem())
			fi := si.FieldIndex(fieldName)
			if fi < 0 {
				sfail("modifies %s: no field %s", item, fieldName)
			}
			xs := cf.asTerm(x.V)
			E := cf.ctx.comp(pre, cf.eName(sl.Elem()), ArrS(SInt, ArrS(SInt, SInt)))
			out = append(out, modLoc{comp: compF(si, fi), srt: ArrS(SInt, si.Fields[fi].Sort), member: func(r *Term) *Term {
				quantCounter++
				sv := Atom(fmt.Sprintf("s!mem%d", quantCounter), SInt)
				return Exists([]*Term{sv}, And(Le(IntLit(0), sv), Lt(sv, SlcLen(xs)), Eq(Select(Select(E, SlcBase(xs)), Slot(SlcOff(xs), sv)), r)))
			}})
			continue
		}
		whole := false
		if strings.HasSuffix(item, "[*]") {
			whole = true
			item = strings.TrimSuffix(item, "[*]")
		}
		e, err := ParseSpecExpr(item)
		if err != nil {
			sfail("modifies item %q: %v", item, err)
		}
		se := cf.specEnv(pre, pre)
		se.pol = 0
		se.presite = "pre"
		switch {
		case whole:
			x := se.eval(e)
			xt := cf.subst(x.T)
			switch u := xt.Underlying().(type) {
			case *types.Slice:
				es := cf.sortOf(u.Elem())
				out = append(out, modLoc{comp: cf.eName(u.Elem()), srt: ArrS(SInt, ArrS(SInt, es)), ref: SlcBase(cf.asTerm(x.V))})
			case *types.Map:
				ks, vs := cf.sortOf(u.Key()), cf.sortOf(u.Elem())
				m := cf.asTerm(x.V)
				out = append(out, modLoc{comp: cf.mdName(u.Key(), u.Elem()), srt: ArrS(SInt, ArrS(ks, SBool)), ref: m},
					modLoc{comp: cf.mvName(u.Key(), u.Elem()), srt: ArrS(SInt, ArrS(ks, vs)), ref: m})
			default:
				sfail("modifies %s[*]: not a slice or map", item)
			}
		case e.Kind == SField:
			x := se.eval(e.Args[0])
			p, ok := cf.subst(x.T).Underlying().(*types.Pointer)
			if !ok {
				sfail("modifies %s: receiver is not a pointer", item)
			}
			si := cf.structInfo(p.Elem())
			i := si.FieldIndex(e.Name)
			if i < 0 {
				sfail("modifies %s: no such field", item)
			}
			out = append(out, modLoc{comp: compF(si, i), srt: ArrS(SInt, si.Fields[i].Sort), ref: cf.asTerm(x.V)})
		case e.Kind == SIndex:
			x := se.eval(e.Args[0])
			i := se.eval(e.Args[1])
			xt := cf.subst(x.T)
			switch u := xt.Underlying().(type) {
			case *types.Slice:
				es := cf.sortOf(u.Elem())
				s := cf.asTerm(x.V)
				out = append(out, modLoc{comp: cf.eName(u.Elem()), srt: ArrS(SInt, ArrS(SInt, es)), ref: SlcBase(s), idx: Slot(SlcOff(s), cf.asTerm(i.V))})
			case *types.Map:
				ks, vs := cf.sortOf(u.Key()), cf.sortOf(u.Elem())
				m := cf.asTerm(x.V)
				k := se.coerce(i, u.Key())
				out = append(out, modLoc{comp: cf.mdName(u.Key(), u.Elem()), srt: ArrS(SInt, ArrS(ks, SBool)), ref: m, idx: k},
					modLoc{comp: cf.mvName(u.Key(), u.Elem()), srt: ArrS(SInt, ArrS(ks, vs)), ref: m, idx: k})
			default:
				sfail("modifies %s: not a slice or map element", item)
			}
		case e.Kind == SUnary && e.Name == "*":
			sfail("modifies *p: write p's fields instead")
		default:
			// a pointer-typed expression: the whole object it points to
			x := se.eval(e)
			p, ok := cf.subst(x.T).Underlying().(*types.Pointer)
			if !ok {
				sfail("modifies %s: unsupported item", item)
			}
			ref := cf.asTerm(x.V)
			if _, isStruct := p.Elem().Underlying().(*types.Struct); isStruct {
				si := cf.structInfo(p.Elem())
				for i := range si.Fields {
					out = append(out, modLoc{comp: compF(si, i), srt: ArrS(SInt, si.Fields[i].Sort), ref: ref})
				}
			} else {
				s := cf.sortOf(p.Elem())
				out = append(out, modLoc{comp: cf.pName(p.Elem()), srt: ArrS(SInt, s), ref: ref})
			}
		}
	}
	return out
}

// frameAxiom: after is before except at locs and at references allocated at or after `limit`.
func (f *Frame) frameAxiom(comp string, before, after *Term, locs []modLoc, limit *Term) *Term {
	if isGhostRegister(comp) {
		return True // ghost counters and registers are not memory
	}
	if strings.HasPrefix(comp, "G.") {
		for _, l := range locs {
			if l.comp == comp {
				return True
			}
		}
		return Eq(after, before)
	}
	_, es := elemOfArr(after.S)
	r := Atom("r!fr", SInt)
	cond := []*Term{Lt(r, limit)}
	twoLevel := strings.HasPrefix(string(es), "(Array ")
	var partial []modLoc
	for _, l := range locs {
		if l.comp != comp {
			continue
		}
		if l.member != nil {
			cond = append(cond, Not(l.member(r)))
		} else if l.idx == nil || !twoLevel {
			cond = append(cond, Neq(r, l.ref))
		} else {
			partial = append(partial, l)
		}
	}
	if !twoLevel {
		return Forall([]*Term{r}, Implies(And(cond...), Eq(Select(after, r), Select(before, r))), []*Term{Select(after, r)})
	}
	if len(partial) == 0 {
		return Forall([]*Term{r}, Implies(And(cond...), Eq(Select(after, r), Select(before, r))), []*Term{Select(after, r)})
	}
	is, _ := elemOfArr(es)
	x := Atom("x!fr", is)
	for _, p := range partial {
		cond = append(cond, Not(And(Eq(r, p.ref), Eq(x, p.idx))))
	}
	return Forall([]*Term{r, x}, Implies(And(cond...), Eq(Select(Select(after, r), x), Select(Select(before, r), x))), []*Term{Select(Select(after, r), x)})
}

// inModifies: the location (comp, ref, idx) is covered by the top-level function's modifies clause.
func (f *Frame) inModifies(comp string, ref, idx *Term) *Term {
	top := f.top()
	var alts []*Term
	for _, l := range top.modLocs {
		if l.comp != comp {
			continue
		}
		if l.member != nil {
			alts = append(alts, l.member(ref))
		} else if l.idx == nil {
			alts = append(alts, Eq(ref, l.ref))
		} else if idx != nil && idx.S == l.idx.S {
			alts = append(alts, And(Eq(ref, l.ref), Eq(idx, l.idx)))
		}
	}
	return Or(alts...)
}

func (f *Frame) writeAllowed(st *State, comp string, ref, idx *Term) *Term {
	if f.top().trackOwn {
		return Or(Eq(ref, IntLit(0)), f.isOwn(st, ref), f.inModifies(comp, ref, idx))
	}
	return Or(Eq(ref, IntLit(0)), f.isFresh(ref), f.inModifies(comp, ref, idx))
}

// locTarget names the component and reference a location write goes to.
func (f *Frame) locTarget(l LocVal) (comp string, ref, idx *Term, ok bool) {
	switch l.kind {
	case locElem:
		return f.eName(l.rootT), l.ref, l.idx, true
	case locHeap:
		rt := f.subst(l.rootT)
		if isStructT(rt) {
			if len(l.path) > 0 && l.path[0].idx == nil {
				si := f.structInfo(rt)
				return compF(si, l.path[0].field), l.ref, nil, true
			}
			return "*", l.ref, nil, true // whole struct
		}
		if a, isArr := rt.Underlying().(*types.Array); isArr {
			if len(l.path) > 0 && l.path[0].idx != nil {
				return f.eName(a.Elem()), l.ref, l.path[0].idx, true
			}
			return f.eName(a.Elem()), l.ref, nil, true
		}
		return f.pName(rt), l.ref, nil, true
	case locGlobal:
		return "G." + l.glob.Pkg.Pkg.Name() + "." + l.glob.Name(), nil, nil, true
	}
	return "", nil, nil, false
}

// frameCheck: when the function has a write frame, every store must target fresh memory or a
// location listed in its modifies clause.
func (f *Frame) frameCheck(st *State, r *Term, l LocVal, what string, pos token.Pos) {
	if !f.checkFrame {
		return
	}
	comp, ref, idx, ok := f.locTarget(l)
	if !ok {
		return
	}
	if ref == nil { // global
		f.check("frame", what, r, f.inModifiesGlobal(comp), pos)
		return
	}
	if comp == "*" {
		si := f.structInfo(l.rootT)
		var all []*Term
		for i := range si.Fields {
			all = append(all, f.inModifies(compF(si, i), ref, nil))
		}
		own := f.isFresh(ref)
		if f.top().trackOwn {
			own = f.isOwn(st, ref)
		}
		f.check("frame", what, r, Or(own, And(all...)), pos)
		return
	}
	f.check("frame", what, r, f.writeAllowed(st, comp, ref, idx), pos)
}

func (f *Frame) inModifiesGlobal(comp string) *Term {
	for _, l := range f.top().modLocs {
		if l.comp == comp {
			return True
		}
	}
	return False
}

func (f *Frame) frameCheckMap(st *State, r *Term, mt *types.Map, m, k *Term, what string, pos token.Pos) {
	if !f.checkFrame {
		return
	}
	f.check("frame", what, r, Or(Eq(m, IntLit(0)), f.writeAllowed(st, f.mdName(mt.Key(), mt.Elem()), m, k)), pos)
}

// frameCheckCall: the callee's write frame must be inside ours.
func (f *Frame) frameCheckCall(st *State, r *Term, callee string, locs []modLoc, known bool, pos token.Pos) {
	if !f.checkFrame {
		return
	}
	if !known {
		f.check("frame", "call:"+callee, r, False, pos)
		return
	}
	var all []*Term
	for _, l := range locs {
		if l.member != nil {
			all = append(all, False) // a callee writing a set of objects: not supported inside a framed caller
			continue
		}
		all = append(all, f.writeAllowed(st, l.comp, l.ref, l.idx))
	}
	f.check("frame", "call:"+callee, r, And(all...), pos)
}

// assumeFrameSinceEntry: in a function with a write frame, whatever was havoc'd still agrees with
// the entry state outside the frame (all writes are checked against it).
func (f *Frame) assumeFrameSinceEntry(st *State, comps map[string]Sort) {
	top := f.top()
	if !top.checkFrame || top.entry == nil {
		return
	}
	names := make([]string, 0, len(comps))
	for k := range comps {
		names = append(names, k)
	}
	sort.Strings(names)
	for _, k := range names {
		if isGhostRegister(k) {
			continue // ghost counters and registers are not memory
		}
		after := st.heap[k]
		before := f.ctx.comp(top.entry, k, comps[k])
		f.ctx.assume(f.frameAxiom(k, before, after, top.modLocs, top.entry.alloc))
	}
}


// spareCapacity: the contract allows appends that write into the unused capacity of an existing
// backing array (`modifies spare-capacity`): slots at or beyond the length of the slice appended to.
// No length-limited view of that array can observe such a write.
func spareCapacity(ct *Contract) bool {
	if ct == nil {
		return false
	}
	for _, it := range ct.Modifies {
		if strings.TrimSpace(it) == "spare-capacity" {
			return true
		}
	}
	return false
}

// isGhostRegister: scalar ghost state of the function under verification (call counters, last-call
// registers, at-call let registers) - not an array indexed by references like the heap components and
// the callee-owned set.
func isGhostRegister(name string) bool {
	return strings.HasPrefix(name, "$ncalls!") || strings.HasPrefix(name, "$lastarg!") || strings.HasPrefix(name, "$lastres!") || strings.HasPrefix(name, "$let!")
}
