module govc

go 1.23

require golang.org/x/tools v0.30.0

require (
	golang.org/x/mod v0.23.0 // indirect
	golang.org/x/sync v0.11.0 // indirect
)
