package main

import (
	"flag"
	"fmt"
	"go/types"

	"golang.org/x/tools/go/ssa"
	"os"
	"sort"
	"strings"
	"time"
)

func globMatch(pat, s string) bool {
	if !strings.Contains(pat, "*") {
		return false
	}
	parts := strings.Split(pat, "*")
	if !strings.HasPrefix(s, parts[0]) {
		return false
	}
	s = s[len(parts[0]):]
	for i := 1; i < len(parts); i++ {
		p := parts[i]
		if i == len(parts)-1 {
			return strings.HasSuffix(s, p)
		}
		j := strings.Index(s, p)
		if j < 0 {
			return false
		}
		s = s[j+len(p):]
	}
	return true
}

func main() {
	if len(os.Args) < 2 {
		fmt.Fprintln(os.Stderr, "usage: govc <verify|check|replay|selftest> ...")
		os.Exit(2)
	}
	switch os.Args[1] {
	case "verify":
		cmdVerify(os.Args[2:])
	case "check":
		cmdCheck(os.Args[2:])
	case "selftest":
		cmdSelftest(os.Args[2:])
	case "replay":
		cmdReplay(os.Args[2:])
	case "sweep":
		cmdSweep(os.Args[2:])
	case "mapranges":
		cmdMapRanges(os.Args[2:])
	default:
		fmt.Fprintln(os.Stderr, "unknown command", os.Args[1])
		os.Exit(2)
	}
}

// cmdVerify: development entry point — verify functions by key prefix and print per-obligation results.
func cmdVerify(args []string) {
	fs := flag.NewFlagSet("verify", flag.ExitOnError)
	repo := fs.String("repo", "/repo", "repository root")
	pkgs := fs.String("pkgs", "./internal/orderedmap", "package patterns (comma separated)")
	timeout := fs.Int("t", 10, "solver timeout (s)")
	keep := fs.Bool("keep", false, "keep SMT files")
	dir := fs.String("dir", "/tmp/govc-smt", "SMT file directory")
	frame := fs.Bool("fresh", false, "check writes go to fresh memory only")
	verbose := fs.Bool("v", false, "print proved obligations too")
	sweepMode := fs.Bool("sweep", false, "verify with the standing preconditions of the safety sweep")
	kindinv := fs.Bool("kindinv", false, "assume the IR kind/payload invariant (as the C04/C16 checks do)")
	fs.Parse(args)
	t0 := time.Now()
	eng, err := LoadEngine(*repo, strings.Split(*pkgs, ","), nil)
	if err != nil {
		fmt.Fprintln(os.Stderr, "load:", err)
		os.Exit(2)
	}
	eng.assumeKindInv = *kindinv
	fmt.Printf("loaded in %.1fs, %d functions indexed, %d contracts\n", time.Since(t0).Seconds(), len(eng.fnByKey), len(eng.contracts.Funcs))
	var keys []string
	for _, pat := range fs.Args() {
		for k := range eng.fnByKey {
			if k == pat || globMatch(pat, k) {
				keys = append(keys, k)
			}
		}
	}
	sort.Strings(keys)
	var all []*Oblig
	for _, k := range keys {
		if eng.fnByKey[k].Parent() != nil && eng.contracts.Funcs[k] == nil {
			continue // closures without a contract are verified where they are expanded
		}
		res := eng.VerifyFunc(eng.fnByKey[k], VerifyOpts{FrameFresh: *frame, Sweep: *sweepMode})
		if res.Unsupported != "" {
			fmt.Printf("%-60s UNSUPPORTED %s\n", k, res.Unsupported)
			continue
		}
		if res.ContractErr != "" {
			fmt.Printf("%-60s CONTRACT-ERROR %s\n", k, res.ContractErr)
			continue
		}
		fmt.Printf("%-60s %d obligations\n", k, len(res.Obligs))
		all = append(all, res.Obligs...)
	}
	Discharge(all, SolveOpts{TimeoutS: *timeout, Dir: *dir, KeepFiles: *keep})
	np := 0
	for _, o := range all {
		if o.Status == "proved" {
			np++
			if *verbose {
				fmt.Printf("  ok      %-70s %s %.2fs\n", o.Name, o.Solver, o.Time)
			}
			continue
		}
		fmt.Printf("  %-7s %-70s %s  [%s]\n", o.Status, o.Name, o.Note, o.Pos)
	}
	fmt.Printf("%d/%d proved in %.1fs\n", np, len(all), time.Since(t0).Seconds())
}


// cmdSweep: development aid - run the zero-annotation safety sweep over packages and print a lock candidate list.
func cmdSweep(args []string) {
	fs := flag.NewFlagSet("sweep", flag.ExitOnError)
	repo := fs.String("repo", "/repo", "repository root")
	pkgs := fs.String("pkgs", "./internal/ast", "package patterns (comma separated)")
	only := fs.String("only", "", "only functions whose key has this prefix")
	timeout := fs.Int("t", 5, "solver timeout (s)")
	lock := fs.String("lock", "", "write fully discharged function keys to this file (appending lines 'C04 <key>')")
	partlock := fs.String("partlock", "", "write 'C04-part <key> <kinds...>' lines for partly discharged functions: the obligation kinds all of whose obligations discharge")
	fs.Parse(args)
	t0 := time.Now()
	eng, err := LoadEngine(*repo, strings.Split(*pkgs, ","), nil)
	if err != nil {
		fmt.Fprintln(os.Stderr, "load:", err)
		os.Exit(2)
	}
	eng.assumeKindInv = true
	keys := eng.sweepKeys(*only)
	var all []*Oblig
	var results []*FuncResult
	for _, k := range keys {
		res := eng.VerifyFunc(eng.fnByKey[k], VerifyOpts{Sweep: true})
		results = append(results, res)
		for _, o := range res.Obligs {
			o.res = res
		}
		all = append(all, res.Obligs...)
	}
	fmt.Printf("%d functions, %d obligations generated in %.1fs\n", len(keys), len(all), time.Since(t0).Seconds())
	Discharge(all, SolveOpts{TimeoutS: *timeout, Dir: "/tmp/govc-sweep"})
	okFns, unsup := 0, 0
	var lockLines []string
	var partLines []string
	for _, res := range results {
		if res.Unsupported != "" || res.ContractErr != "" {
			unsup++
			fmt.Printf("UNSUPPORTED %-55s %s%s\n", res.Key, res.Unsupported, res.ContractErr)
			continue
		}
		bad := 0
		for _, o := range res.Obligs {
			if o.Status != "proved" {
				bad++
				fmt.Printf("  %-7s %-80s [%s] %s\n", o.Status, o.Name, o.Pos, o.Solver)
			}
		}
		if bad == 0 {
			okFns++
			lockLines = append(lockLines, "C04 "+res.Key)
		} else {
			kindOf := func(name string) string {
				parts := strings.SplitN(name, ":", 4)
				if len(parts) < 3 {
					return ""
				}
				if parts[0] == "safe" {
					return ":" + parts[2] + ":"
				}
				return ""
			}
			okKind, badKind := map[string]int{}, map[string]bool{}
			for _, o := range res.Obligs {
				k := kindOf(o.Name)
				if k == "" {
					continue
				}
				if o.Status == "proved" {
					okKind[k]++
				} else {
					badKind[k] = true
				}
			}
			var ks []string
			for k := range okKind {
				if !badKind[k] {
					ks = append(ks, k)
				}
			}
			sort.Strings(ks)
			if len(ks) > 0 && res.Cover != nil {
				partLines = append(partLines, "C04-part "+res.Key+" "+strings.Join(ks, " "))
			}
		}
	}
	if *partlock != "" {
		os.WriteFile(*partlock, []byte(strings.Join(partLines, "\n")+"\n"), 0o644)
	}
	fmt.Printf("functions: %d total, %d fully discharged, %d outside the subset; %.1fs\n", len(results), okFns, unsup, time.Since(t0).Seconds())
	if *lock != "" {
		os.WriteFile(*lock, []byte(strings.Join(lockLines, "\n")+"\n"), 0o644)
	}
}

// returnedClosure: a function literal directly inside a function whose result is function-typed - the
// closure is the value handed to other code, so it is verified on its own (captured variables unknown).
func returnedClosure(fn *ssa.Function) bool {
	p := fn.Parent()
	if p == nil || p.Parent() != nil {
		return false
	}
	res := p.Signature.Results()
	for i := 0; i < res.Len(); i++ {
		if _, ok := res.At(i).Type().Underlying().(*types.Signature); ok {
			return true
		}
	}
	return false
}

// sweepKeys: source-level functions of the loaded packages (no synthetic wrappers, closures only with a contract).
func (e *Engine) sweepKeys(prefix string) []string {
	initial := map[string]bool{}
	for _, p := range e.pkgs {
		initial[p.PkgPath] = true
	}
	var keys []string
	for k, fn := range e.fnByKey {
		if prefix != "" && !strings.HasPrefix(k, prefix) {
			continue
		}
		if fn.Synthetic != "" || len(fn.Blocks) == 0 || fn.Name() == "init" {
			continue
		}
		root := fn
		for root.Parent() != nil {
			root = root.Parent()
		}
		if root.Pkg == nil || !initial[root.Pkg.Pkg.Path()] {
			continue
		}
		if fn.Parent() != nil && e.contractFor(fn) == nil && !returnedClosure(fn) {
			continue
		}
		keys = append(keys, k)
	}
	sort.Strings(keys)
	return keys
}

// cmdMapRanges lists every range-over-map site of the loaded packages (development aid for C03).
func cmdMapRanges(args []string) {
	fs := flag.NewFlagSet("mapranges", flag.ExitOnError)
	repo := fs.String("repo", "/repo", "repository root")
	pkgs := fs.String("pkgs", "./...", "package patterns")
	fs.Parse(args)
	eng, err := LoadEngine(*repo, strings.Split(*pkgs, ","), nil)
	if err != nil {
		fmt.Fprintln(os.Stderr, "load:", err)
		os.Exit(2)
	}
	var all []*Oblig
	var results []*FuncResult
	for _, s := range eng.mapRangeSites() {
		res := eng.commuteResult(s)
		results = append(results, res)
		all = append(all, res.Obligs...)
	}
	Discharge(all, SolveOpts{TimeoutS: 10, Dir: "/tmp/govc-commute", KeepFiles: true})
	sites := eng.mapRangeSites()
	for i, res := range results {
		status := "ok"
		if res.Unsupported != "" {
			status = "UNSUPPORTED " + res.Unsupported
		}
		for _, o := range res.Obligs {
			if o.Status != "proved" {
				status = "FAILS " + strings.TrimPrefix(o.Name, "commute:"+sites[i].Name+":") + " (" + o.Status + ")"
				break
			}
		}
		fmt.Printf("%-70s %-45s %s\n", sites[i].Name, sites[i].Pos, status)
	}
}
