package main

// Contracts on named function types ("functype T"): a write frame that every function value of the
// type obeys. Dynamic calls through a value of that type use it; every closure the module creates
// for that type (the literal returned by a function whose result type is T) is verified against it.

import (
	"go/token"
	"go/types"
	"sort"
	"strings"

	"golang.org/x/tools/go/ssa"
)

func functypeKey(t types.Type) (string, *types.Named) {
	nt, ok := types.Unalias(t).(*types.Named)
	if !ok || nt.Obj().Pkg() == nil {
		return "", nil
	}
	if _, isSig := nt.Underlying().(*types.Signature); !isSig {
		return "", nil
	}
	return pkgID(nt.Obj().Pkg()) + ".functype:" + nt.Obj().Name(), nt
}

// contractFor returns the contract of fn: its own, or the one derived from the function type it is
// created for (a closure returned by a function whose single result has a functype contract).
func (e *Engine) contractFor(fn *ssa.Function) *Contract {
	if o := fn.Origin(); o != nil {
		fn = o
	}
	key := funcKey(fn)
	if ct, ok := e.contracts.Funcs[key]; ok {
		return ct
	}
	if cts := e.fieldFnOf[key]; len(cts) > 0 {
		ct := &Contract{Key: key, File: cts[0].ct.File, Loops: map[int]*LoopContract{}, ParamNames: cts[0].names, ParamOffset: cts[0].offset}
		// bound to several fields: only what all of them promise can be assumed
		for _, rq := range cts[0].ct.Requires {
			inAll := true
			for _, o := range cts[1:] {
				found := false
				for _, r2 := range o.ct.Requires {
					if r2.Text == rq.Text {
						found = true
					}
				}
				inAll = inAll && found
			}
			if inAll {
				ct.Requires = append(ct.Requires, rq)
			}
		}
		ct.Props = cts[0].ct.Props
		e.contracts.Funcs[key] = ct
		return ct
	}
	if fn.Parent() == nil {
		return nil
	}
	res := fn.Parent().Signature.Results()
	if res.Len() != 1 {
		return nil
	}
	ftKey, nt := functypeKey(res.At(0).Type())
	if nt == nil {
		return nil
	}
	ft := e.contracts.Funcs[ftKey]
	if ft == nil || !types.Identical(nt.Underlying(), fn.Signature) && !sameParams(nt.Underlying().(*types.Signature), fn.Signature) {
		return nil
	}
	sig := nt.Underlying().(*types.Signature)
	ct := &Contract{Key: key, File: ft.File, Loops: map[int]*LoopContract{}, Requires: ft.Requires, Ensures: ft.Ensures,
		Modifies: ft.Modifies, ModifiesSet: ft.ModifiesSet, Props: ft.Props, Inline: true}
	for i := 0; i < sig.Params().Len(); i++ {
		ct.ParamNames = append(ct.ParamNames, sig.Params().At(i).Name())
	}
	e.contracts.Funcs[key] = ct
	return ct
}

func sameParams(a, b *types.Signature) bool {
	if a.Params().Len() != b.Params().Len() {
		return false
	}
	for i := 0; i < a.Params().Len(); i++ {
		if !types.Identical(a.Params().At(i).Type(), b.Params().At(i).Type()) {
			return false
		}
	}
	return true
}

// bindParamNames makes the function type's parameter names visible in a closure's frame.
func (f *Frame) bindParamNames(ct *Contract) {
	if ct == nil || len(ct.ParamNames) == 0 {
		return
	}
	if f.specVars == nil {
		f.specVars = map[string]SVal{}
	}
	for i, n := range ct.ParamNames {
		if i+ct.ParamOffset < len(f.fn.Params) && n != "" && n != "_" {
			p := f.fn.Params[i+ct.ParamOffset]
			if v, ok := f.vals[p]; ok {
				f.specVars[n] = SVal{v, f.subst(p.Type())}
			}
		}
	}
}

// functypeCall: a call through a function value whose type carries a contract.
func (f *Frame) functypeCall(st *State, r *Term, ct *Contract, nt *types.Named, fnv *Term, args []Val, pos token.Pos) Val {
	sig := nt.Underlying().(*types.Signature)
	cf := &Frame{ctx: f.ctx, fn: f.fn, tmap: f.tmap, vals: f.vals, parent: f, depth: f.depth + 1, ghosts: map[string]SVal{}, curKey: map[*ssa.Range]*Term{}, specVars: map[string]SVal{}}
	for i := 0; i < sig.Params().Len() && i < len(args); i++ {
		if n := sig.Params().At(i).Name(); n != "" && n != "_" {
			cf.specVars[n] = SVal{args[i], sig.Params().At(i).Type()}
		}
	}
	f.havocClosureCells(st, args)
	pre := &State{heap: copyHeap(st.heap), locals: st.locals, alloc: st.alloc, base: st.base}
	cf.entry = pre
	for i, rq := range ct.Requires {
		se := cf.specEnv(pre, pre)
		se.positive = false
		f.check("pre", "->"+shortKey(ct.Key)+":"+itoa(i), r, se.evalBool(rq.Expr), pos)
	}
	locs := cf.evalModLocs(ct, pre)
	f.frameCheckCall(st, r, shortKey(ct.Key), locs, true, pos)
	comps := map[string]Sort{}
	for _, l := range locs {
		comps[l.comp] = l.srt
	}
	old := copyHeap(st.heap)
	oldBase := st.base
	f.havocComps(st, comps)
	names := make([]string, 0, len(comps))
	for k := range comps {
		names = append(names, k)
	}
	sort.Strings(names)
	for _, k := range names {
		before, ok := old[k]
		if !ok {
			before = f.ctx.constant(k+"@"+itoa(oldBase), comps[k])
		}
		f.ctx.assume(f.frameAxiom(k, before, st.heap[k], locs, pre.alloc))
	}
	f.ctx.trusted["function-type contract "+ct.Key+": every value of this type obeys it (all closures the module creates for it are verified against it; values created elsewhere are assumed to)"] = true
	out := f.freshResults(st, sig, "ft")
	if ct.Pure {
		// a `pure` function type: the results are functions of the function value and the argument
		// values (the same terms apply(fn, args...) denotes in specifications)
		out = f.applyFnValue(ct, sig, fnv, args)
	}
	var rs []SVal
	switch o := out.(type) {
	case *Term:
		rs = []SVal{{o, sig.Results().At(0).Type()}}
	case TupleVal:
		for i, v := range o {
			rs = append(rs, SVal{v, sig.Results().At(i).Type()})
		}
	}
	for _, en := range ct.Ensures {
		se := cf.specEnv(st, pre)
		se.results = rs
		se.positive = true
		se.site = "ftcall"
		f.ctx.assume(Implies(r, se.evalBool(en.Expr)))
	}
	return out
}

// functypeMods: components a call through a contracted function type may write (type-based).
func (f *Frame) functypeMods(ct *Contract, nt *types.Named, ms *modSet) {
	sig := nt.Underlying().(*types.Signature)
	ptypes := map[string]types.Type{}
	for i := 0; i < sig.Params().Len(); i++ {
		ptypes[sig.Params().At(i).Name()] = sig.Params().At(i).Type()
	}
	for _, item := range ct.Modifies {
		e, err := ParseSpecExpr(item)
		if err != nil || item == "nothing" {
			continue
		}
		// walk a.b.c: the component is field c of the struct type of a.b
		var typeOf func(x *SExpr) types.Type
		typeOf = func(x *SExpr) types.Type {
			switch x.Kind {
			case SIdent:
				return ptypes[x.Name]
			case SField:
				bt := typeOf(x.Args[0])
				if bt == nil {
					return nil
				}
				if p, ok := bt.Underlying().(*types.Pointer); ok {
					bt = p.Elem()
				}
				if st, ok := bt.Underlying().(*types.Struct); ok {
					for i := 0; i < st.NumFields(); i++ {
						if st.Field(i).Name() == x.Name {
							return st.Field(i).Type()
						}
					}
				}
			}
			return nil
		}
		if e.Kind == SIndex {
			ct := typeOf(e.Args[0])
			if ct == nil {
				ms.top = true
				return
			}
			switch u := ct.Underlying().(type) {
			case *types.Slice:
				es := f.sortOf(u.Elem())
				f.addComp(ms, f.eName(u.Elem()), ArrS(SInt, ArrS(SInt, es)))
			case *types.Map:
				f.addMapMods(u, ms, true, true)
			default:
				ms.top = true
				return
			}
			continue
		}
		if e.Kind != SField {
			ms.top = true
			return
		}
		bt := typeOf(e.Args[0])
		if bt == nil {
			ms.top = true
			return
		}
		if p, ok := bt.Underlying().(*types.Pointer); ok {
			bt = p.Elem()
		}
		if _, ok := bt.Underlying().(*types.Struct); !ok {
			ms.top = true
			return
		}
		si := f.structInfo(bt)
		i := si.FieldIndex(e.Name)
		if i < 0 {
			ms.top = true
			return
		}
		f.addComp(ms, compF(si, i), ArrS(SInt, si.Fields[i].Sort))
	}
}

type fieldFnBinding struct {
	ct     *Contract
	names  []string
	offset int
}

// setupFieldFns finds, for every "fieldfn T.F" contract, the functions the module stores into that
// field (bound methods and closure literals): they inherit the field's preconditions.
func (e *Engine) setupFieldFns() {
	e.fieldFnOf = map[string][]fieldFnBinding{}
	has := false
	for _, ct := range e.contracts.Funcs {
		if ct.FieldFn {
			has = true
		}
	}
	if !has {
		return
	}
	for _, fn := range e.fnByKey {
		if !e.inModule(fn) {
			continue
		}
		for _, b := range fn.Blocks {
			for _, in := range b.Instrs {
				st, ok := in.(*ssa.Store)
				if !ok {
					continue
				}
				fa, ok := st.Addr.(*ssa.FieldAddr)
				if !ok {
					continue
				}
				ct, sig := e.fieldFnContract(fa)
				if ct == nil {
					continue
				}
				var target *ssa.Function
				offset := 0
				switch v := st.Val.(type) {
				case *ssa.MakeClosure:
					cf := v.Fn.(*ssa.Function)
					if cf.Synthetic != "" && len(v.Bindings) == 1 {
						if m, ok := cf.Object().(*types.Func); ok {
							target = e.prog.FuncValue(m)
							offset = 1
						}
					} else {
						target = cf
					}
				case *ssa.Function:
					target = v
				case *ssa.ChangeType:
					if mc, ok := v.X.(*ssa.MakeClosure); ok {
						cf := mc.Fn.(*ssa.Function)
						if cf.Synthetic != "" && len(mc.Bindings) == 1 {
							if m, ok := cf.Object().(*types.Func); ok {
								target = e.prog.FuncValue(m)
								offset = 1
							}
						} else {
							target = cf
						}
					} else if f2, ok := v.X.(*ssa.Function); ok {
						target = f2
					}
				}
				if target == nil {
					continue
				}
				var names []string
				for i := 0; i < sig.Params().Len(); i++ {
					names = append(names, sig.Params().At(i).Name())
				}
				k := funcKey(target)
				dup := false
				for _, ex := range e.fieldFnOf[k] {
					if ex.ct == ct {
						dup = true
					}
				}
				if !dup {
					e.fieldFnOf[k] = append(e.fieldFnOf[k], fieldFnBinding{ct, names, offset})
				}
			}
		}
	}
}

// fieldFnContract: the contract attached to the struct field addressed by fa, with the field's signature.
func (e *Engine) fieldFnContract(fa *ssa.FieldAddr) (*Contract, *types.Signature) {
	pt, ok := fa.X.Type().Underlying().(*types.Pointer)
	if !ok {
		return nil, nil
	}
	nt, ok := types.Unalias(pt.Elem()).(*types.Named)
	if !ok || nt.Obj().Pkg() == nil {
		return nil, nil
	}
	st, ok := nt.Underlying().(*types.Struct)
	if !ok {
		return nil, nil
	}
	fld := st.Field(fa.Field)
	ct := e.contracts.Funcs[pkgID(nt.Obj().Pkg())+".fieldfn:"+nt.Obj().Name()+"."+fld.Name()]
	if ct == nil {
		return nil, nil
	}
	sig, ok := fld.Type().Underlying().(*types.Signature)
	if !ok {
		return nil, nil
	}
	return ct, sig
}

// fieldFnCallPre: a dynamic call through a value just loaded from a contracted field must satisfy
// the field's preconditions.
func (f *Frame) fieldFnCallPre(st *State, r *Term, cc *ssa.CallCommon, args []Val, pos token.Pos) {
	ld, ok := cc.Value.(*ssa.UnOp)
	if !ok {
		return
	}
	fa, ok := ld.X.(*ssa.FieldAddr)
	if !ok {
		return
	}
	ct, sig := f.ctx.eng.fieldFnContract(fa)
	if ct == nil {
		return
	}
	cf := &Frame{ctx: f.ctx, fn: f.fn, tmap: f.tmap, vals: f.vals, parent: f, depth: f.depth + 1, ghosts: map[string]SVal{}, curKey: map[*ssa.Range]*Term{}, specVars: map[string]SVal{}}
	for i := 0; i < sig.Params().Len() && i < len(args); i++ {
		if n := sig.Params().At(i).Name(); n != "" && n != "_" {
			cf.specVars[n] = SVal{args[i], sig.Params().At(i).Type()}
		}
	}
	cf.entry = st
	for i, rq := range ct.Requires {
		se := cf.specEnv(st, st)
		se.positive = false
		label := rq.Label
		if label == "" {
			label = itoa(i)
		}
		f.check("pre", "->"+shortKey(ct.Key)+":"+label, r, se.evalBool(rq.Expr), pos)
	}
}


// applyFnValue: the results of calling a value of a `pure` function type, as uninterpreted functions
// of the function value and the argument values.
func (f *Frame) applyFnValue(ct *Contract, sig *types.Signature, fnv *Term, args []Val) Val {
	ts := []*Term{fnv}
	for _, a := range args {
		ts = append(ts, f.asTerm(a))
	}
	var out TupleVal
	for i := 0; i < sig.Results().Len(); i++ {
		t := f.subst(sig.Results().At(i).Type())
		out = append(out, f.ctx.uf("apply!"+ct.Key+"!"+itoa(i), f.sortOf(t), ts...))
	}
	f.ctx.trusted["pure function type "+ct.Key+": the result of calling a value of this type is a function of the value and of its argument values (all built-in selectors are; the state is the one at the time of application)"] = true
	if len(out) == 1 {
		return out[0]
	}
	return out
}

// resolveRoleKeys: a contract keyed `pkg.Parent@Role` is the contract of the closure literal of Parent
// that is stored into a struct field named Role (Visitor{OnRef: func...}) or passed as an argument to a
// function or method named Role (objects.Iterate(func...)). Binding by role instead of by the closure's
// ordinal ($1, $2, ...) keeps the contract attached when closures are added or reordered. The role must
// identify exactly one closure of Parent; otherwise the key stays unresolved and the check reports
// that the contract no longer binds.
func (e *Engine) resolveRoleKeys() {
	var keys []string
	for k := range e.contracts.Funcs {
		if strings.Contains(k, "@") {
			keys = append(keys, k)
		}
	}
	sort.Strings(keys)
	for _, k := range keys {
		at := strings.LastIndex(k, "@")
		parent := e.fnByKey[k[:at]]
		role := k[at+1:]
		if parent == nil {
			continue
		}
		found := map[*ssa.Function]bool{}
		closureOf := func(v ssa.Value) *ssa.Function {
			switch x := v.(type) {
			case *ssa.MakeClosure:
				if cf, ok := x.Fn.(*ssa.Function); ok && cf.Parent() == parent {
					return cf
				}
			case *ssa.Function:
				if x.Parent() == parent {
					return x
				}
			case *ssa.ChangeType:
				if mc, ok := x.X.(*ssa.MakeClosure); ok {
					if cf, ok := mc.Fn.(*ssa.Function); ok && cf.Parent() == parent {
						return cf
					}
				}
				if cf, ok := x.X.(*ssa.Function); ok && cf.Parent() == parent {
					return cf
				}
			}
			return nil
		}
		for _, b := range parent.Blocks {
			for _, in := range b.Instrs {
				switch x := in.(type) {
				case *ssa.Store:
					fa, ok := x.Addr.(*ssa.FieldAddr)
					if !ok {
						continue
					}
					pt, ok := fa.X.Type().Underlying().(*types.Pointer)
					if !ok {
						continue
					}
					st, ok := pt.Elem().Underlying().(*types.Struct)
					if !ok || st.Field(fa.Field).Name() != role {
						continue
					}
					if cf := closureOf(x.Val); cf != nil {
						found[cf] = true
					}
				case ssa.CallInstruction:
					cc := x.Common()
					name := ""
					if cc.IsInvoke() {
						name = cc.Method.Name()
					} else if sc := cc.StaticCallee(); sc != nil {
						name = sc.Name()
						if o := sc.Origin(); o != nil {
							name = o.Name()
						}
					}
					if name != role {
						continue
					}
					for _, a := range cc.Args {
						if cf := closureOf(a); cf != nil {
							found[cf] = true
						}
					}
				}
			}
		}
		if len(found) != 1 {
			continue
		}
		for cf := range found {
			ct := e.contracts.Funcs[k]
			nk := funcKey(cf)
			if _, taken := e.contracts.Funcs[nk]; taken {
				continue
			}
			delete(e.contracts.Funcs, k)
			ct.Key = nk
			ct.RoleKey = k
			e.contracts.Funcs[nk] = ct
		}
	}
}
