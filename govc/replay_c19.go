package main

// Replay generator for obligations of the orderedmap methods: the counterexample's receiver length,
// the position of the key argument and the index argument are read from the solver model and turned
// into a concrete Map[int,int] on which the real method is called.

import (
	"fmt"
	"strings"
)

func init() { replayGens = append(replayGens, replayOrderedMap) }

func replayOrderedMap(eng *Engine, o *Oblig) (string, string, string, bool) {
	if !strings.HasPrefix(o.Func, "orderedmap.(*Map).") || o.res == nil || o.res.Frame == nil || o.Status != "failed" {
		return "", "", "", false
	}
	method := strings.TrimPrefix(o.Func, "orderedmap.(*Map).")
	if strings.Contains(method, "$") {
		return "", "", "", false
	}
	f := o.res.Frame
	if len(f.fn.Params) == 0 {
		return "", "", "", false
	}
	recv, ok := f.vals[f.fn.Params[0]].(*Term)
	if !ok {
		return "", "", "", false
	}
	si := f.structInfo(derefT(f.fn.Params[0].Type()))
	entry := f.entry
	ordI, recI := si.FieldIndex("order"), si.FieldIndex("records")
	if ordI < 0 || recI < 0 {
		return "", "", "", false
	}
	order := f.readHeapField(entry, si, ordI, recv)
	terms := []*Term{SlcLen(order), recv, f.readHeapField(entry, si, recI, recv)}
	var keyT, idxT *Term
	for _, p := range f.fn.Params[1:] {
		if t, ok := f.vals[p].(*Term); ok {
			switch p.Name() {
			case "key":
				keyT = t
			case "index":
				idxT = t
				terms = append(terms, t)
			}
		}
	}
	vals := o.EvalInModel(terms)
	if len(vals) < 3 {
		return "", "", "", false
	}
	n, ok := smtInt(vals[0])
	if !ok || n < 0 || n > 64 {
		return "", "", "", false
	}
	recvV, _ := smtInt(vals[1])
	recsV, _ := smtInt(vals[2])
	idx := int64(0)
	if idxT != nil && len(vals) > 3 {
		idx, _ = smtInt(vals[3])
	}
	// position of key in the receiver's order (first match), from the model
	keyPos := int64(-1)
	if keyT != nil && n > 0 {
		var eqs []*Term
		et := f.subst(f.fn.Params[1].Type())
		es := f.sortOf(et)
		E := f.ctx.comp(entry, f.eName(et), ArrS(SInt, ArrS(SInt, es)))
		for i := int64(0); i < n; i++ {
			eqs = append(eqs, Eq(Select(Select(E, SlcBase(order)), Slot(SlcOff(order), IntLit(i))), keyT))
		}
		for i, v := range o.EvalInModel(eqs) {
			if strings.TrimSpace(v) == "true" {
				keyPos = int64(i)
				break
			}
		}
	}
	var b strings.Builder
	b.WriteString("package orderedmap\n\nimport \"testing\"\n\n")
	fmt.Fprintf(&b, "// replay of %s: receiver with %d keys (nil receiver: %v, nil records: %v), key position %d, index %d\n", o.Name, n, recvV == 0, recsV == 0, keyPos, idx)
	b.WriteString("func TestGovcReplay(t *testing.T) {\n")
	switch {
	case recvV == 0:
		b.WriteString("\tvar m *Map[int, int]\n")
	case recsV == 0:
		b.WriteString("\tm := &Map[int, int]{}\n")
	default:
		b.WriteString("\tm := New[int, int]()\n")
		fmt.Fprintf(&b, "\tfor i := 0; i < %d; i++ {\n\t\tm.Set(i, 100+i)\n\t}\n", n)
	}
	key := fmt.Sprint(keyPos)
	if keyPos < 0 {
		key = "1000"
	}
	call := ""
	switch method {
	case "Remove":
		call = "m.Remove(" + key + ")"
	case "Set":
		call = "m.Set(" + key + ", 7)"
	case "Get":
		call = "_ = m.Get(" + key + ")"
	case "Has":
		call = "_ = m.Has(" + key + ")"
	case "At":
		call = fmt.Sprintf("_ = m.At(%d)", idx)
	case "Len":
		call = "_ = m.Len()"
	case "Values":
		call = "_ = m.Values()"
	case "Iterate":
		call = "m.Iterate(func(int, int) {})"
	case "Map":
		call = "_ = m.Map(func(_ int, v int) int { return v })"
	case "Filter":
		call = "_ = m.Filter(func(int, int) bool { return true })"
	case "Sort":
		call = "m.Sort(func(a, b int) bool { return a < b })"
	case "Equal":
		call = "_ = m.Equal(m)"
	case "MarshalJSON":
		call = "_, _ = m.MarshalJSON()"
	case "UnmarshalJSON":
		call = "_ = m.UnmarshalJSON([]byte(`{}`))"
	default:
		return "", "", "", false
	}
	if strings.HasPrefix(o.Kind, "safe") {
		fmt.Fprintf(&b, "\tdefer func() {\n\t\tif r := recover(); r != nil {\n\t\t\tt.Fatalf(\"panic as predicted by %%s: %%v\", %q, r)\n\t\t}\n\t}()\n\t%s\n}\n", o.Name, call)
	} else {
		// functional obligations: compare with a reference model of the operation
		fmt.Fprintf(&b, "\tbefore := append([]int{}, m.order...)\n\t%s\n\t_ = before\n\tseen := map[int]bool{}\n\tfor _, k := range m.order {\n\t\tif seen[k] {\n\t\t\tt.Fatalf(\"duplicate key %%d in order\", k)\n\t\t}\n\t\tseen[k] = true\n\t\tif _, ok := m.records[k]; !ok {\n\t\t\tt.Fatalf(\"key %%d in order but not in records\", k)\n\t\t}\n\t}\n\tif len(m.records) != len(m.order) {\n\t\tt.Fatalf(\"representation invariant broken: %%d records, %%d ordered keys\", len(m.records), len(m.order))\n\t}\n}\n", call)
	}
	return "internal/orderedmap", b.String(), "TestGovcReplay", true
}
