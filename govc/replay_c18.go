package main

// Replay generator for copy obligations (C18): a fully populated value of the receiver type is built
// by reflection (every pointer non-nil, every slice and map with two entries, distinct leaves), the
// real DeepCopy is called, and the field named by the obligation is compared with the original
// (equality modulo nil/empty) and checked for shared mutable structure (same pointer, same backing
// array, same map). The solver gives no model for these quantified obligations; the field name in
// the obligation is what directs the replay.

import (
	"fmt"
	"go/types"
	"strings"
)

func init() { replayGens = append(replayGens, replayCopy) }

const copyReplayHelpers = `
func govcPopulate(t reflect.Type, depth int, n *int) reflect.Value {
	v := reflect.New(t).Elem()
	*n++
	switch t.Kind() {
	case reflect.String:
		v.SetString(fmt.Sprintf("s%d", *n))
	case reflect.Bool:
		v.SetBool(true)
	case reflect.Int, reflect.Int8, reflect.Int16, reflect.Int32, reflect.Int64:
		v.SetInt(int64(*n))
	case reflect.Uint, reflect.Uint8, reflect.Uint16, reflect.Uint32, reflect.Uint64:
		v.SetUint(uint64(*n))
	case reflect.Float32, reflect.Float64:
		v.SetFloat(float64(*n))
	case reflect.Interface:
		if t.NumMethod() == 0 {
			v.Set(reflect.ValueOf(fmt.Sprintf("any%d", *n)))
		}
	case reflect.Pointer:
		if depth < 4 {
			p := reflect.New(t.Elem())
			p.Elem().Set(govcPopulate(t.Elem(), depth+1, n))
			v.Set(p)
		}
	case reflect.Slice:
		if depth < 4 {
			s := reflect.MakeSlice(t, 2, 2)
			s.Index(0).Set(govcPopulate(t.Elem(), depth+1, n))
			s.Index(1).Set(govcPopulate(t.Elem(), depth+1, n))
			v.Set(s)
		}
	case reflect.Map:
		if depth < 4 {
			m := reflect.MakeMap(t)
			m.SetMapIndex(govcPopulate(t.Key(), depth+1, n), govcPopulate(t.Elem(), depth+1, n))
			m.SetMapIndex(govcPopulate(t.Key(), depth+1, n), govcPopulate(t.Elem(), depth+1, n))
			v.Set(m)
		}
	case reflect.Struct:
		for i := 0; i < t.NumField(); i++ {
			if t.Field(i).PkgPath != "" {
				continue // unexported (foreign) fields stay zero
			}
			v.Field(i).Set(govcPopulate(t.Field(i).Type, depth+1, n))
		}
	}
	return v
}

// govcCompare reports the first difference (modulo nil/empty) or shared mutable structure.
func govcCompare(a, b reflect.Value, path string) string {
	if a.Kind() != b.Kind() {
		return path + ": kinds differ"
	}
	switch a.Kind() {
	case reflect.Pointer:
		if a.IsNil() != b.IsNil() {
			return fmt.Sprintf("%s: nil-ness differs (original nil=%v, copy nil=%v)", path, a.IsNil(), b.IsNil())
		}
		if a.IsNil() {
			return ""
		}
		if a.Pointer() == b.Pointer() {
			return path + ": the copy shares the original's pointer"
		}
		return govcCompare(a.Elem(), b.Elem(), path)
	case reflect.Slice:
		if a.Len() != b.Len() {
			return fmt.Sprintf("%s: length %d in the original, %d in the copy", path, a.Len(), b.Len())
		}
		if a.Len() > 0 && a.Pointer() == b.Pointer() {
			return path + ": the copy shares the original's backing array"
		}
		for i := 0; i < a.Len(); i++ {
			if d := govcCompare(a.Index(i), b.Index(i), fmt.Sprintf("%s[%d]", path, i)); d != "" {
				return d
			}
		}
	case reflect.Map:
		if a.Len() != b.Len() {
			return fmt.Sprintf("%s: %d entries in the original, %d in the copy", path, a.Len(), b.Len())
		}
		if a.Len() > 0 && a.Pointer() == b.Pointer() {
			return path + ": the copy shares the original's map"
		}
		for _, k := range a.MapKeys() {
			bv := b.MapIndex(k)
			if !bv.IsValid() {
				return fmt.Sprintf("%s: key %v missing in the copy", path, k)
			}
			if d := govcCompare(a.MapIndex(k), bv, fmt.Sprintf("%s[%v]", path, k)); d != "" {
				return d
			}
		}
	case reflect.Struct:
		for i := 0; i < a.NumField(); i++ {
			if a.Type().Field(i).PkgPath != "" {
				continue
			}
			if d := govcCompare(a.Field(i), b.Field(i), path+"."+a.Type().Field(i).Name); d != "" {
				return d
			}
		}
	case reflect.Interface:
		if a.IsNil() != b.IsNil() || (!a.IsNil() && !reflect.DeepEqual(a.Interface(), b.Interface())) {
			return path + ": values differ"
		}
	default:
		if !reflect.DeepEqual(a.Interface(), b.Interface()) {
			return fmt.Sprintf("%s: %v in the original, %v in the copy", path, a.Interface(), b.Interface())
		}
	}
	return ""
}
`

func replayCopy(eng *Engine, o *Oblig) (string, string, string, bool) {
	if o.Kind != "copy" || o.res == nil || !strings.HasSuffix(o.Func, ".DeepCopy") {
		return "", "", "", false
	}
	fn := o.res.Fn
	if fn.Pkg == nil || fn.Signature.Recv() == nil {
		return "", "", "", false
	}
	rt := fn.Signature.Recv().Type()
	ptr := false
	if p, ok := rt.(*types.Pointer); ok {
		ptr = true
		rt = p.Elem()
	}
	named, ok := rt.(*types.Named)
	if !ok {
		return "", "", "", false
	}
	tname := named.Obj().Name()
	field := ""
	if i := strings.Index(o.Name, ":field:"); i >= 0 {
		field = o.Name[i+len(":field:"):]
		if j := strings.IndexAny(field, "#@"); j >= 0 {
			field = field[:j]
		}
	}
	pkgDir := strings.TrimPrefix(fn.Pkg.Pkg.Path(), eng.modulePath+"/")
	var b strings.Builder
	fmt.Fprintf(&b, "package %s\n\nimport (\n\t\"fmt\"\n\t\"reflect\"\n\t\"testing\"\n)\n%s\n", fn.Pkg.Pkg.Name(), copyReplayHelpers)
	fmt.Fprintf(&b, "// replay of %s\nfunc TestGovcReplay(t *testing.T) {\n\tn := 0\n", o.Name)
	fmt.Fprintf(&b, "\torig := govcPopulate(reflect.TypeOf(%s{}), 0, &n).Interface().(%s)\n", zeroLit(tname, named), tname)
	if ptr {
		b.WriteString("\tcp := (&orig).DeepCopy()\n")
	} else {
		b.WriteString("\tcp := orig.DeepCopy()\n")
	}
	if field != "" {
		fmt.Fprintf(&b, "\ta := reflect.ValueOf(orig).FieldByName(%q)\n\tb := reflect.ValueOf(cp).FieldByName(%q)\n", field, field)
		fmt.Fprintf(&b, "\tif d := govcCompare(a, b, %q); d != \"\" {\n\t\tt.Fatalf(\"copy is not faithful and independent: %%s\", d)\n\t}\n}\n", tname+"."+field)
	} else {
		fmt.Fprintf(&b, "\tif d := govcCompare(reflect.ValueOf(orig), reflect.ValueOf(cp), %q); d != \"\" {\n\t\tt.Fatalf(\"copy is not faithful and independent: %%s\", d)\n\t}\n}\n", tname)
	}
	return pkgDir, b.String(), "TestGovcReplay", true
}

func zeroLit(name string, n *types.Named) string {
	if _, ok := n.Underlying().(*types.Struct); ok {
		return name
	}
	return name
}
