package main

// Verification context for one function under contract: the append-only list of SMT commands
// (definitions and guarded assumptions) and the obligations generated against its prefixes.

import (
	"fmt"
	"go/types"
	"sort"
	"strings"

	"golang.org/x/tools/go/ssa"
)

type Oblig struct {
	Name   string
	Kind   string // safe, post, pre, inv-init, inv-pres, frame, copy, commute, cover, canary, ...
	Func   string
	CtxLen int   // prefix of ctx.cmds that is in scope
	Goal   *Term // guarded goal (reach => goal)
	Reach  *Term // the guard alone (nil when unknown): used for per-obligation reachability covers
	Cond   *Term // the unguarded goal
	Expect string // "unsat" (default) or "sat" (cover)
	Note   string
	Why    string // for generator-decided obligations: the structural reason it does not hold
	Pos    string
	// result
	Status  string // proved, failed(sat), unknown, error
	Solver  string
	Time    float64
	Model   string
	ctx     *Ctx
	Witness string
	res     *FuncResult
}

type Ctx struct {
	eng      *Engine
	fn       *ssa.Function
	fnKey    string
	cmds     []string
	declared map[string]Sort
	funs     map[string]string // UF name -> declaration
	obligs   []*Oblig
	nfresh   int
	strLits  map[string]*Term
	fltLits  map[string]*Term
	assumed  map[string]bool   // memo of lazily emitted assumptions
	trusted  map[string]bool   // assumptions/trusted items used (for evidence)
	skolems  map[string][]*skolemFn
	obNames  map[string]int
	unsupported string
	trivial  int
	closures map[string]ClosureVal
}

type skolemFn struct {
	name  string
	sorts []Sort
	res   Sort
	site  string
}

func newCtx(eng *Engine, fn *ssa.Function) *Ctx {
	return &Ctx{eng: eng, fn: fn, fnKey: funcKey(fn), declared: map[string]Sort{}, funs: map[string]string{},
		strLits: map[string]*Term{}, fltLits: map[string]*Term{}, assumed: map[string]bool{}, trusted: map[string]bool{},
		skolems: map[string][]*skolemFn{}, obNames: map[string]int{}, closures: map[string]ClosureVal{}}
}

func (c *Ctx) fresh(prefix string, s Sort) *Term {
	c.nfresh++
	name := q(fmt.Sprintf("%s!%d", prefix, c.nfresh))
	c.cmds = append(c.cmds, "(declare-const "+name+" "+string(s)+")")
	c.declared[name] = s
	return Atom(name, s)
}

// constant declared once by name
func (c *Ctx) constant(name string, s Sort) *Term {
	name = q(name)
	if old, ok := c.declared[name]; ok {
		if old != s {
			panic(fmt.Sprintf("constant %s redeclared with sort %s (was %s)", name, s, old))
		}
		return Atom(name, s)
	}
	c.cmds = append(c.cmds, "(declare-const "+name+" "+string(s)+")")
	c.declared[name] = s
	return Atom(name, s)
}

var predeclared = map[string]bool{"strlen": true, "strcat": true, "strlt": true, "eqfold": true, "typeof": true, "slot": true}

func (c *Ctx) declFun(name string, args []Sort, res Sort) string {
	name = q(name)
	if predeclared[name] {
		return name
	}
	if _, ok := c.funs[name]; !ok {
		var as []string
		for _, a := range args {
			as = append(as, string(a))
		}
		c.funs[name] = "(declare-fun " + name + " (" + strings.Join(as, " ") + ") " + string(res) + ")"
	}
	return name
}

func (c *Ctx) uf(name string, res Sort, args ...*Term) *Term {
	var ss []Sort
	for _, a := range args {
		ss = append(ss, a.S)
	}
	n := c.declFun(name, ss, res)
	if len(args) == 0 {
		// nullary function: declared as function, used as atom
		return Atom(n, res)
	}
	return App(n, res, args...)
}

func (c *Ctx) assume(t *Term) {
	if t == nil || t.Op == "true" {
		return
	}
	c.cmds = append(c.cmds, "(assert "+t.String()+")")
}

func (c *Ctx) assumeOnce(key string, t *Term) {
	if c.assumed[key] {
		return
	}
	c.assumed[key] = true
	c.assume(t)
}

// name introduces a fresh constant for a large term.
func (c *Ctx) name(prefix string, t *Term) *Term {
	if t.size <= 12 {
		return t
	}
	n := c.fresh(prefix, t.S)
	c.cmds = append(c.cmds, "(assert (= "+n.Op+" "+t.String()+"))")
	return n
}

// define always introduces a constant equal to t (unless t is already an atom).
func (c *Ctx) define(prefix string, t *Term) *Term {
	if t.IsAtom() {
		return t
	}
	n := c.fresh(prefix, t.S)
	c.cmds = append(c.cmds, "(assert (= "+n.Op+" "+t.String()+"))")
	return n
}

func (c *Ctx) strLit(s string) *Term {
	if t, ok := c.strLits[s]; ok {
		return t
	}
	t := Atom(q(fmt.Sprintf("str!%d", len(c.strLits))), SStr)
	c.strLits[s] = t
	return t
}

func (c *Ctx) fltLit(s string) *Term {
	if t, ok := c.fltLits[s]; ok {
		return t
	}
	t := Atom(q(fmt.Sprintf("flt!%d", len(c.fltLits))), SFlt)
	c.fltLits[s] = t
	return t
}

func (c *Ctx) addOblig(kind, name string, goal *Term, pos string) *Oblig {
	full := kind + ":" + name
	c.obNames[full]++
	if n := c.obNames[full]; n > 1 {
		full = fmt.Sprintf("%s#%d", full, n)
	}
	o := &Oblig{Name: full, Kind: kind, Func: c.fnKey, CtxLen: len(c.cmds), Goal: goal, Expect: "unsat", ctx: c, Pos: pos}
	c.obligs = append(c.obligs, o)
	return o
}

// Preamble renders global declarations for this context.
func (c *Ctx) Preamble() string {
	var sb strings.Builder
	sb.WriteString(c.eng.sorts.Decls())
	// literals
	type kv struct {
		k string
		t *Term
	}
	var lits []kv
	for k, t := range c.strLits {
		lits = append(lits, kv{k, t})
	}
	sort.Slice(lits, func(i, j int) bool { return lits[i].t.Op < lits[j].t.Op })
	for _, l := range lits {
		sb.WriteString(fmt.Sprintf("(declare-const %s Str) ; %q\n", l.t.Op, l.k))
	}
	if len(lits) > 1 {
		sb.WriteString("(assert (distinct")
		for _, l := range lits {
			sb.WriteString(" " + l.t.Op)
		}
		sb.WriteString("))\n")
	}
	for _, l := range lits {
		sb.WriteString(fmt.Sprintf("(assert (= (strlen %s) %d))\n", l.t.Op, len(l.k)))
		if l.k == "" {
			sb.WriteString(fmt.Sprintf("(assert (forall ((s Str)) (! (=> (= (strlen s) 0) (= s %s)) :pattern ((strlen s)))))\n", l.t.Op))
		}
	}
	var fl []kv
	for k, t := range c.fltLits {
		fl = append(fl, kv{k, t})
	}
	sort.Slice(fl, func(i, j int) bool { return fl[i].t.Op < fl[j].t.Op })
	for _, l := range fl {
		sb.WriteString(fmt.Sprintf("(declare-const %s Flt) ; %s\n", l.t.Op, l.k))
	}
	if len(fl) > 1 {
		sb.WriteString("(assert (distinct")
		for _, l := range fl {
			sb.WriteString(" " + l.t.Op)
		}
		sb.WriteString("))\n")
	}
	var fns []string
	for _, d := range c.funs {
		fns = append(fns, d)
	}
	sort.Strings(fns)
	for _, d := range fns {
		sb.WriteString(d + "\n")
	}
	return sb.String()
}

// pkgID: the package name used in contract keys; the generators under internal/jennies share their
// names with the parsers (jsonschema, openapi), so they are qualified.
func pkgID(p *types.Package) string {
	if strings.Contains(p.Path(), "/jennies/") {
		return "jennies/" + p.Name()
	}
	return p.Name()
}

// funcKey gives the stable contract key of a function: pkg.Func, pkg.(*T).M, pkg.T.M, parent$N.
func funcKey(fn *ssa.Function) string {
	if fn == nil {
		return "<nil>"
	}
	if o := fn.Origin(); o != nil {
		fn = o
	}
	if fn.Parent() != nil {
		return funcKey(fn.Parent()) + strings.TrimPrefix(fn.Name(), fn.Parent().Name())
	}
	pkg := ""
	if fn.Pkg != nil {
		pkg = pkgID(fn.Pkg.Pkg) + "."
	} else if fn.Object() != nil && fn.Object().Pkg() != nil {
		pkg = pkgID(fn.Object().Pkg()) + "."
	}
	if recv := fn.Signature.Recv(); recv != nil {
		t := recv.Type()
		ptr := false
		if p, ok := t.(*types.Pointer); ok {
			ptr = true
			t = p.Elem()
		}
		name := "?"
		if n, ok := types.Unalias(t).(*types.Named); ok {
			name = n.Obj().Name()
		}
		if ptr {
			return pkg + "(*" + name + ")." + fn.Name()
		}
		return pkg + name + "." + fn.Name()
	}
	return pkg + fn.Name()
}
