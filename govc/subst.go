package main

import (
	"go/types"
)

type TMap map[*types.TypeParam]types.Type

// substType replaces type parameters by their arguments.
func substType(t types.Type, m TMap) types.Type {
	if len(m) == 0 || t == nil {
		return t
	}
	switch u := t.(type) {
	case *types.TypeParam:
		if r, ok := m[u]; ok {
			return r
		}
		// match by name+index as a fallback (method receivers re-declare their type params)
		for k, v := range m {
			if k.Obj().Name() == u.Obj().Name() && k.Index() == u.Index() {
				return v
			}
		}
		return t
	case *types.Alias:
		return substType(types.Unalias(t), m)
	case *types.Pointer:
		e := substType(u.Elem(), m)
		if e == u.Elem() {
			return t
		}
		return types.NewPointer(e)
	case *types.Slice:
		e := substType(u.Elem(), m)
		if e == u.Elem() {
			return t
		}
		return types.NewSlice(e)
	case *types.Array:
		e := substType(u.Elem(), m)
		if e == u.Elem() {
			return t
		}
		return types.NewArray(e, u.Len())
	case *types.Map:
		k, v := substType(u.Key(), m), substType(u.Elem(), m)
		if k == u.Key() && v == u.Elem() {
			return t
		}
		return types.NewMap(k, v)
	case *types.Chan:
		return t
	case *types.Named:
		ta := u.TypeArgs()
		if ta == nil || ta.Len() == 0 {
			return t
		}
		args := make([]types.Type, ta.Len())
		changed := false
		for i := 0; i < ta.Len(); i++ {
			args[i] = substType(ta.At(i), m)
			if args[i] != ta.At(i) {
				changed = true
			}
		}
		if !changed {
			return t
		}
		inst, err := types.Instantiate(nil, u.Origin(), args, false)
		if err != nil {
			return t
		}
		return inst
	case *types.Signature:
		ps, ch1 := substTuple(u.Params(), m)
		rs, ch2 := substTuple(u.Results(), m)
		if !ch1 && !ch2 {
			return t
		}
		return types.NewSignatureType(nil, nil, nil, ps, rs, u.Variadic())
	case *types.Struct:
		changed := false
		fs := make([]*types.Var, u.NumFields())
		tags := make([]string, u.NumFields())
		for i := 0; i < u.NumFields(); i++ {
			ft := substType(u.Field(i).Type(), m)
			if ft != u.Field(i).Type() {
				changed = true
			}
			fs[i] = types.NewField(u.Field(i).Pos(), u.Field(i).Pkg(), u.Field(i).Name(), ft, u.Field(i).Embedded())
			tags[i] = u.Tag(i)
		}
		if !changed {
			return t
		}
		return types.NewStruct(fs, tags)
	case *types.Tuple:
		r, _ := substTuple(u, m)
		return r
	}
	return t
}

func substTuple(tp *types.Tuple, m TMap) (*types.Tuple, bool) {
	if tp == nil {
		return nil, false
	}
	changed := false
	vs := make([]*types.Var, tp.Len())
	for i := 0; i < tp.Len(); i++ {
		nt := substType(tp.At(i).Type(), m)
		if nt != tp.At(i).Type() {
			changed = true
		}
		vs[i] = types.NewVar(tp.At(i).Pos(), tp.At(i).Pkg(), tp.At(i).Name(), nt)
	}
	if !changed {
		return tp, false
	}
	return types.NewTuple(vs...), true
}

func (f *Frame) subst(t types.Type) types.Type { return substType(t, f.tmap) }
