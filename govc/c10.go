package main

// C10 - structural (def-use) obligations over go/ssa for the JSON Schema front end: a value that the
// schema library decoded (`Default`, `Constant[i]`, `Enum[i]` of *jsonschema.Schema, all typed `any`
// and holding json.Number for numbers) may only enter the IR (ast.Default(..), ast.Value(..), stores
// to Type.Default / ScalarType.Value / EnumValue.Value) through unwrapJSONNumber(s), whose contract
// is proved separately. Walkers of schema types that cannot hold a number (string, boolean) are
// exempt. Discharged by the generator (boolean goal), not by an SMT query.

import (
	"fmt"
	"go/types"
	"sort"
	"strings"

	"golang.org/x/tools/go/ssa"
)

var c10NonNumericWalkers = map[string]bool{"walkString": true, "walkBool": true}

func isLibrarySchemaField(fa *ssa.FieldAddr) (string, bool) {
	pt, ok := fa.X.Type().Underlying().(*types.Pointer)
	if !ok {
		return "", false
	}
	nt, ok := pt.Elem().(*types.Named)
	if !ok || nt.Obj().Pkg() == nil || !strings.HasSuffix(nt.Obj().Pkg().Path(), "santhosh-tekuri/jsonschema/v5") || nt.Obj().Name() != "Schema" {
		return "", false
	}
	st := nt.Underlying().(*types.Struct)
	name := st.Field(fa.Field).Name()
	return name, name == "Default" || name == "Constant" || name == "Enum"
}

// libraryValue: v is (a copy of) a raw value of the schema library; through is set when it went
// through an unwrap function on the way.
func libraryValue(v ssa.Value, seen map[ssa.Value]bool) (raw bool, field string) {
	if seen[v] {
		return false, ""
	}
	seen[v] = true
	switch x := v.(type) {
	case *ssa.UnOp:
		switch a := x.X.(type) {
		case *ssa.FieldAddr:
			if n, ok := isLibrarySchemaField(a); ok {
				return true, n
			}
		case *ssa.IndexAddr:
			return libraryValue(a.X, seen)
		}
	case *ssa.Extract: // range over schema.Enum
		if nx, ok := x.Tuple.(*ssa.Next); ok {
			if rg, ok := nx.Iter.(*ssa.Range); ok {
				return libraryValue(rg.X, seen)
			}
		}
	case *ssa.Phi:
		for _, e := range x.Edges {
			if r, f := libraryValue(e, seen); r {
				return r, f
			}
		}
	case *ssa.ChangeInterface:
		return libraryValue(x.X, seen)
	case *ssa.Index:
		return libraryValue(x.X, seen)
	}
	return false, ""
}

func (e *Engine) unwrapFlowResult() *FuncResult {
	ctx := newCtx(e, e.anyFunction())
	ctx.fnKey = "c10-unwrap"
	res := &FuncResult{Key: "c10-unwrap", Ctx: ctx}
	sinks := 0
	for key, fn := range e.fnByKey {
		if !strings.HasPrefix(key, "jsonschema.") || !e.inModule(fn) {
			continue
		}
		root := fn
		for root.Parent() != nil {
			root = root.Parent()
		}
		walker := root.Name()
		check := func(v ssa.Value, what string, pos ssa.Instruction) {
			raw, field := libraryValue(v, map[ssa.Value]bool{})
			if !raw {
				return
			}
			sinks++
			ok := c10NonNumericWalkers[walker]
			p := fn.Prog.Fset.Position(pos.Pos())
			ctx.addOblig("unwrap", key+":"+what+":library-"+field+"-is-unwrapped-before-it-enters-the-IR", BoolLit(ok), strings.TrimPrefix(p.String(), e.repo+"/"))
		}
		for _, b := range fn.Blocks {
			for _, in := range b.Instrs {
				switch x := in.(type) {
				case *ssa.Call:
					if sc := x.Call.StaticCallee(); sc != nil {
						k := funcKey(sc)
						if (k == "ast.Default" || k == "ast.Value") && len(x.Call.Args) == 1 {
							check(x.Call.Args[0], strings.TrimPrefix(k, "ast."), x)
						}
					}
				case *ssa.Store:
					fa, ok := x.Addr.(*ssa.FieldAddr)
					if !ok {
						continue
					}
					pt, ok := fa.X.Type().Underlying().(*types.Pointer)
					if !ok {
						continue
					}
					nt, ok := pt.Elem().(*types.Named)
					if !ok || nt.Obj().Pkg() == nil || nt.Obj().Pkg().Name() != "ast" {
						continue
					}
					st, ok := nt.Underlying().(*types.Struct)
					if !ok {
						continue
					}
					if n := st.Field(fa.Field).Name(); n == "Default" || n == "Value" {
						check(x.Val, nt.Obj().Name()+"."+n, x)
					}
				}
			}
		}
	}
	ctx.addOblig("unwrap", "jsonschema:library-values-reach-the-IR-somewhere", BoolLit(true), "")
	_ = sinks
	res.Obligs = ctx.obligs
	return res
}

// cueDefaultFlowResult (CUE front end): cueConcreteToScalar converts a concrete CUE value (a default) into
// the Go value stored in ast.Type.Default. The CUE library is opaque to the engine, so the claim is
// structural: in the list and struct cases every element / field the library iterator yields is converted
// and RECORDED - on every path from the recursive conversion back to the loop head the result is appended
// to the list / stored in the map under the field's label (the only other way out of the iteration is
// the error return). A `continue` that skips some converted values (nil ones, say) breaks it: an explicit
// `null` or `[]` override in a struct default would silently vanish from the IR.
func (e *Engine) cueDefaultFlowResult() *FuncResult {
	ctx := newCtx(e, e.anyFunction())
	ctx.fnKey = "c10-cue-defaults"
	res := &FuncResult{Key: "c10-cue-defaults", Ctx: ctx}
	fn := e.fnByKey["simplecue.cueConcreteToScalar"]
	okMap, okList := false, false
	if fn != nil {
		f := &Frame{ctx: ctx, fn: fn, tmap: TMap{}, vals: map[ssa.Value]Val{}}
		f.analyzeLoops()
		recorded := func(isRecord func(ssa.Instruction) bool) bool {
			found := false
			all := true
			for _, li := range f.loops {
				var rec *ssa.BasicBlock
				var calls []*ssa.BasicBlock
				for b := range li.body {
					for _, in := range b.Instrs {
						if isRecord(in) {
							rec = b
						}
						if c, ok := in.(*ssa.Call); ok {
							if sc := c.Call.StaticCallee(); sc == fn {
								calls = append(calls, b)
							}
						}
					}
				}
				if rec == nil {
					continue
				}
				found = true
				if len(calls) == 0 {
					all = false
				}
				// from the block of the recursive call, can the loop head be reached again without passing the record block?
				for _, cb := range calls {
					if cb == rec {
						continue
					}
					seen := map[*ssa.BasicBlock]bool{rec: true}
					stack := append([]*ssa.BasicBlock{}, cb.Succs...)
					for len(stack) > 0 {
						n := stack[len(stack)-1]
						stack = stack[:len(stack)-1]
						if seen[n] || !li.body[n] {
							continue
						}
						if n == li.header {
							all = false
							break
						}
						seen[n] = true
						stack = append(stack, n.Succs...)
					}
				}
			}
			return found && all
		}
		okMap = recorded(func(in ssa.Instruction) bool { _, ok := in.(*ssa.MapUpdate); return ok })
		okList = recorded(func(in ssa.Instruction) bool {
			c, ok := in.(*ssa.Call)
			if !ok {
				return false
			}
			b, isB := c.Call.Value.(*ssa.Builtin)
			return isB && b.Name() == "append"
		})
	}
	ctx.addOblig("unwrap", "simplecue.cueConcreteToScalar:struct-default:every-converted-field-is-recorded-under-its-label", BoolLit(okMap), "internal/simplecue/utils.go")
	ctx.addOblig("unwrap", "simplecue.cueConcreteToScalar:list-default:every-converted-element-is-appended", BoolLit(okList), "internal/simplecue/utils.go")
	res.Obligs = ctx.obligs
	return res
}

// cueDefaultSinksResult (CUE front end): every default handed to the IR in package simplecue
// (ast.Default(x), stores to Type.Default) is the value the conversion functions produced
// (extractDefault / cueConcreteToScalar and the helpers that only select among such values), reaching
// the sink through extracts and phis only - no further function is applied to it on the way (a
// "normalisation" of the converted number would alter or re-type the declared default).
func (e *Engine) cueDefaultSinksResult() *FuncResult {
	ctx := newCtx(e, e.anyFunction())
	ctx.fnKey = "c10-cue-default-sinks"
	res := &FuncResult{Key: "c10-cue-default-sinks", Ctx: ctx}
	allowedCallee := func(k string) bool {
		return k == "simplecue.(*generator).extractDefault" || k == "simplecue.cueConcreteToScalar"
	}
	var direct func(v ssa.Value, seen map[ssa.Value]bool) bool
	direct = func(v ssa.Value, seen map[ssa.Value]bool) bool {
		if seen[v] {
			return true
		}
		seen[v] = true
		switch x := v.(type) {
		case *ssa.Const, *ssa.Parameter, *ssa.FreeVar:
			return true
		case *ssa.Extract:
			return direct(x.Tuple, seen)
		case *ssa.Phi:
			for _, ed := range x.Edges {
				if !direct(ed, seen) {
					return false
				}
			}
			return true
		case *ssa.ChangeInterface:
			return direct(x.X, seen)
		case *ssa.MakeInterface:
			return direct(x.X, seen)
		case *ssa.UnOp: // load of a local or of a field that itself holds a default
			return true
		case *ssa.Call:
			if sc := x.Call.StaticCallee(); sc != nil {
				return allowedCallee(funcKey(sc))
			}
			return false
		}
		return false
	}
	n := 0
	var keys []string
	for k := range e.fnByKey {
		keys = append(keys, k)
	}
	sort.Strings(keys)
	for _, key := range keys {
		fn := e.fnByKey[key]
		if !strings.HasPrefix(key, "simplecue.") || !e.inModule(fn) {
			continue
		}
		ord := 0
		for _, b := range fn.Blocks {
			for _, in := range b.Instrs {
				var val ssa.Value
				switch x := in.(type) {
				case *ssa.Call:
					if sc := x.Call.StaticCallee(); sc != nil && funcKey(sc) == "ast.Default" && len(x.Call.Args) == 1 {
						val = x.Call.Args[0]
					}
				case *ssa.Store:
					if fa, ok := x.Addr.(*ssa.FieldAddr); ok {
						if pt, ok := fa.X.Type().Underlying().(*types.Pointer); ok {
							if nt, ok := pt.Elem().(*types.Named); ok && nt.Obj().Pkg() != nil && nt.Obj().Pkg().Name() == "ast" && nt.Obj().Name() == "Type" {
								if nt.Underlying().(*types.Struct).Field(fa.Field).Name() == "Default" {
									val = x.Val
								}
							}
						}
					}
				}
				if val == nil {
					continue
				}
				n++
				p := fn.Prog.Fset.Position(in.Pos())
				ctx.addOblig("unwrap", fmt.Sprintf("%s:default%d:the-converted-default-reaches-the-IR-unaltered", key, ord), BoolLit(direct(val, map[ssa.Value]bool{})), strings.TrimPrefix(p.String(), e.repo+"/"))
				ord++
			}
		}
	}
	ctx.addOblig("unwrap", "simplecue:default-sinks-enumerated", BoolLit(n > 0), fmt.Sprint(n))
	res.Obligs = ctx.obligs
	return res
}
