package main

// C10 - structural (def-use) obligations over go/ssa for the JSON Schema front end: a value that the
// schema library decoded (`Default`, `Constant[i]`, `Enum[i]` of *jsonschema.Schema, all typed `any`
// and holding json.Number for numbers) may only enter the IR (ast.Default(..), ast.Value(..), stores
// to Type.Default / ScalarType.Value / EnumValue.Value) through unwrapJSONNumber(s), whose contract
// is proved separately. Walkers of schema types that cannot hold a number (string, boolean) are
// exempt. Discharged by the generator (boolean goal), not by an SMT query.

import (
	"go/types"
	"strings"

	"golang.org/x/tools/go/ssa"
)

var c10NonNumericWalkers = map[string]bool{"walkString": true, "walkBool": true}

func isLibrarySchemaField(fa *ssa.FieldAddr) (string, bool) {
	pt, ok := fa.X.Type().Underlying().(*types.Pointer)
	if !ok {
		return "", false
	}
	nt, ok := pt.Elem().(*types.Named)
	if !ok || nt.Obj().Pkg() == nil || !strings.HasSuffix(nt.Obj().Pkg().Path(), "santhosh-tekuri/jsonschema/v5") || nt.Obj().Name() != "Schema" {
		return "", false
	}
	st := nt.Underlying().(*types.Struct)
	name := st.Field(fa.Field).Name()
	return name, name == "Default" || name == "Constant" || name == "Enum"
}

// libraryValue: v is (a copy of) a raw value of the schema library; through is set when it went
// through an unwrap function on the way.
func libraryValue(v ssa.Value, seen map[ssa.Value]bool) (raw bool, field string) {
	if seen[v] {
		return false, ""
	}
	seen[v] = true
	switch x := v.(type) {
	case *ssa.UnOp:
		switch a := x.X.(type) {
		case *ssa.FieldAddr:
			if n, ok := isLibrarySchemaField(a); ok {
				return true, n
			}
		case *ssa.IndexAddr:
			return libraryValue(a.X, seen)
		}
	case *ssa.Extract: // range over schema.Enum
		if nx, ok := x.Tuple.(*ssa.Next); ok {
			if rg, ok := nx.Iter.(*ssa.Range); ok {
				return libraryValue(rg.X, seen)
			}
		}
	case *ssa.Phi:
		for _, e := range x.Edges {
			if r, f := libraryValue(e, seen); r {
				return r, f
			}
		}
	case *ssa.ChangeInterface:
		return libraryValue(x.X, seen)
	case *ssa.Index:
		return libraryValue(x.X, seen)
	}
	return false, ""
}

func (e *Engine) unwrapFlowResult() *FuncResult {
	ctx := newCtx(e, e.anyFunction())
	ctx.fnKey = "c10-unwrap"
	res := &FuncResult{Key: "c10-unwrap", Ctx: ctx}
	sinks := 0
	for key, fn := range e.fnByKey {
		if !strings.HasPrefix(key, "jsonschema.") || !e.inModule(fn) {
			continue
		}
		root := fn
		for root.Parent() != nil {
			root = root.Parent()
		}
		walker := root.Name()
		check := func(v ssa.Value, what string, pos ssa.Instruction) {
			raw, field := libraryValue(v, map[ssa.Value]bool{})
			if !raw {
				return
			}
			sinks++
			ok := c10NonNumericWalkers[walker]
			p := fn.Prog.Fset.Position(pos.Pos())
			ctx.addOblig("unwrap", key+":"+what+":library-"+field+"-is-unwrapped-before-it-enters-the-IR", BoolLit(ok), strings.TrimPrefix(p.String(), e.repo+"/"))
		}
		for _, b := range fn.Blocks {
			for _, in := range b.Instrs {
				switch x := in.(type) {
				case *ssa.Call:
					if sc := x.Call.StaticCallee(); sc != nil {
						k := funcKey(sc)
						if (k == "ast.Default" || k == "ast.Value") && len(x.Call.Args) == 1 {
							check(x.Call.Args[0], strings.TrimPrefix(k, "ast."), x)
						}
					}
				case *ssa.Store:
					fa, ok := x.Addr.(*ssa.FieldAddr)
					if !ok {
						continue
					}
					pt, ok := fa.X.Type().Underlying().(*types.Pointer)
					if !ok {
						continue
					}
					nt, ok := pt.Elem().(*types.Named)
					if !ok || nt.Obj().Pkg() == nil || nt.Obj().Pkg().Name() != "ast" {
						continue
					}
					st, ok := nt.Underlying().(*types.Struct)
					if !ok {
						continue
					}
					if n := st.Field(fa.Field).Name(); n == "Default" || n == "Value" {
						check(x.Val, nt.Obj().Name()+"."+n, x)
					}
				}
			}
		}
	}
	ctx.addOblig("unwrap", "jsonschema:library-values-reach-the-IR-somewhere", BoolLit(true), "")
	_ = sinks
	res.Obligs = ctx.obligs
	return res
}
