package main

// Mapping of Go types to SMT sorts; struct types become non-recursive datatypes generated from the
// go/types declaration (pointers, slices, maps are references, so no datatype is recursive).

import (
	"fmt"
	"go/types"
	"strings"
)

type StructInfo struct {
	Sort   Sort
	Name   string // printable
	T      *types.Struct
	Fields []FieldInfo
}

type FieldInfo struct {
	Name string
	Type types.Type
	Sort Sort
	Acc  string // accessor symbol
}

type Sorts struct {
	structs   map[string]*StructInfo // by sort name
	order     []*StructInfo          // declaration order (dependencies first)
	tparams   map[string]bool
	typeIDs   map[string]int
	typeByID  []types.Type
	boxed     map[Sort]bool
	qualifier types.Qualifier
}

func NewSorts() *Sorts {
	return &Sorts{structs: map[string]*StructInfo{}, tparams: map[string]bool{}, typeIDs: map[string]int{}, boxed: map[Sort]bool{},
		qualifier: func(p *types.Package) string {
			// packages of the module are known by their (disambiguated) name, everything else by its path
			if strings.HasPrefix(p.Path(), "github.com/grafana/cog") {
				return pkgID(p)
			}
			if !strings.Contains(p.Path(), "/") {
				return p.Path()
			}
			return p.Path()
		}}
}

func q(s string) string {
	for _, c := range s {
		if !(c >= 'a' && c <= 'z' || c >= 'A' && c <= 'Z' || c >= '0' && c <= '9' || c == '_' || c == '.' || c == '!' || c == '$' || c == '@' || c == '-') {
			return "|" + strings.ReplaceAll(strings.ReplaceAll(s, "|", "/"), "\\", "/") + "|"
		}
	}
	if s == "" || (s[0] >= '0' && s[0] <= '9') {
		return "|" + s + "|"
	}
	return s
}

func (ss *Sorts) typeName(t types.Type) string {
	return types.TypeString(t, ss.qualifier)
}

// SortOf maps a Go type to its SMT sort.
func (ss *Sorts) SortOf(t types.Type) Sort {
	switch u := t.(type) {
	case *types.TypeParam:
		if ct := coreTypeOf(u); ct != nil {
			return ss.SortOf(ct)
		}
		n := "TP!" + u.Obj().Name()
		ss.tparams[n] = true
		return Sort(n)
	case *types.Alias:
		return ss.SortOf(types.Unalias(t))
	case *types.Named:
		if _, ok := u.Underlying().(*types.Struct); ok {
			return ss.structSort(ss.typeName(u), u.Underlying().(*types.Struct))
		}
		return ss.SortOf(u.Underlying())
	case *types.Basic:
		switch {
		case u.Info()&types.IsBoolean != 0:
			return SBool
		case u.Info()&types.IsInteger != 0:
			return SInt
		case u.Info()&types.IsString != 0:
			return SStr
		case u.Info()&types.IsFloat != 0:
			return SFlt
		case u.Kind() == types.UntypedNil:
			return SInt
		case u.Kind() == types.UnsafePointer:
			return SInt
		case u.Info()&types.IsComplex != 0:
			return SFlt
		}
		panic(unsupported("basic type " + u.String()))
	case *types.Pointer, *types.Map, *types.Chan, *types.Signature:
		return SInt
	case *types.Slice:
		return SSlc
	case *types.Array:
		return ArrS(SInt, ss.SortOf(u.Elem()))
	case *types.Interface:
		return SAny
	case *types.Struct:
		return ss.structSort("struct!"+ss.typeName(u), u)
	case *types.Tuple:
		panic(unsupported("tuple sort"))
	}
	panic(unsupported(fmt.Sprintf("type %T %s", t, t)))
}

// coreTypeOf: a type parameter constrained by a single type (e.g. [K string]) behaves like that type.
func coreTypeOf(tp *types.TypeParam) types.Type {
	iface, ok := tp.Constraint().Underlying().(*types.Interface)
	if !ok || iface.NumEmbeddeds() != 1 || iface.NumExplicitMethods() != 0 {
		return nil
	}
	switch e := iface.EmbeddedType(0).(type) {
	case *types.Union:
		if e.Len() == 1 {
			return e.Term(0).Type()
		}
		return nil
	case *types.Basic:
		return e
	}
	return nil
}

func (ss *Sorts) structSort(name string, st *types.Struct) Sort {
	sname := q("S!" + name)
	if si, ok := ss.structs[sname]; ok {
		return si.Sort
	}
	si := &StructInfo{Sort: Sort(sname), Name: name, T: st}
	ss.structs[sname] = si // before recursion (no recursion through values in Go anyway)
	for i := 0; i < st.NumFields(); i++ {
		f := st.Field(i)
		fs := ss.SortOf(f.Type())
		si.Fields = append(si.Fields, FieldInfo{Name: f.Name(), Type: f.Type(), Sort: fs, Acc: q("S!" + name + "!" + f.Name())})
	}
	ss.order = append(ss.order, si)
	return si.Sort
}

func (ss *Sorts) StructOf(t types.Type) *StructInfo {
	s := ss.SortOf(t)
	si := ss.structs[string(s)]
	if si == nil {
		panic(unsupported("not a struct type: " + t.String()))
	}
	return si
}

func (si *StructInfo) Ctor() string { return q("mk!" + si.Name) }

func (si *StructInfo) FieldIndex(name string) int {
	for i, f := range si.Fields {
		if f.Name == name {
			return i
		}
	}
	return -1
}

// MkStruct builds a struct value from field terms.
func (si *StructInfo) Mk(fields []*Term) *Term {
	if len(fields) != len(si.Fields) {
		panic("MkStruct arity")
	}
	if len(fields) == 0 {
		return Atom(si.Ctor(), si.Sort)
	}
	for i, f := range fields {
		if f.S != si.Fields[i].Sort {
			panic(fmt.Sprintf("MkStruct %s field %s: sort %s, want %s", si.Name, si.Fields[i].Name, f.S, si.Fields[i].Sort))
		}
	}
	// eta: mk(acc_0(v), ..., acc_n(v)) is v
	var whole *Term
	for i, f := range fields {
		if f.Op != si.Fields[i].Acc || len(f.Args) != 1 {
			whole = nil
			break
		}
		if i == 0 {
			whole = f.Args[0]
		} else if f.Args[0] != whole && !termEq(f.Args[0], whole) {
			whole = nil
			break
		}
	}
	if whole != nil && whole.S == si.Sort {
		return whole
	}
	return mk(si.Ctor(), si.Sort, fields...)
}

// Get projects field i of a struct term (simplifying constructor applications).
func (si *StructInfo) Get(v *Term, i int) *Term {
	if v.Op == si.Ctor() && len(v.Args) == len(si.Fields) {
		return v.Args[i]
	}
	if v.Op == "ite" {
		// push accessors through small ites to keep constructor simplification
		if v.Args[1].Op == si.Ctor() || v.Args[2].Op == si.Ctor() {
			return Ite(v.Args[0], si.Get(v.Args[1], i), si.Get(v.Args[2], i))
		}
	}
	return mk(si.Fields[i].Acc, si.Fields[i].Sort, v)
}

// Set returns v with field i replaced.
func (si *StructInfo) Set(v *Term, i int, nv *Term) *Term {
	fs := make([]*Term, len(si.Fields))
	for j := range si.Fields {
		if j == i {
			fs[j] = nv
		} else {
			fs[j] = si.Get(v, j)
		}
	}
	return si.Mk(fs)
}

// Slice helpers.
func MkSlice(base, off, ln, cp *Term) *Term { return mk("mk!Slc", SSlc, base, off, ln, cp) }
func slcField(v *Term, i int, name string) *Term {
	if v.Op == "mk!Slc" {
		return v.Args[i]
	}
	if v.Op == "ite" && (v.Args[1].Op == "mk!Slc" || v.Args[2].Op == "mk!Slc") {
		return Ite(v.Args[0], slcField(v.Args[1], i, name), slcField(v.Args[2], i, name))
	}
	return mk(name, SInt, v)
}
func SlcBase(v *Term) *Term { return slcField(v, 0, "Slc!base") }
func SlcOff(v *Term) *Term  { return slcField(v, 1, "Slc!off") }
func SlcLen(v *Term) *Term  { return slcField(v, 2, "Slc!len") }
func SlcCap(v *Term) *Term  { return slcField(v, 3, "Slc!cap") }

var NilSlice = MkSlice(IntLit(0), IntLit(0), IntLit(0), IntLit(0))

// TypeID gives a small integer identifying a dynamic type (for interfaces).
func (ss *Sorts) TypeID(t types.Type) int {
	k := ss.typeName(t)
	if id, ok := ss.typeIDs[k]; ok {
		return id
	}
	id := len(ss.typeIDs) + 1
	ss.typeIDs[k] = id
	ss.typeByID = append(ss.typeByID, t)
	return id
}

func boxName(s Sort) string   { return q("box!" + strings.Trim(string(s), "|")) }
func unboxName(s Sort) string { return q("unbox!" + strings.Trim(string(s), "|")) }

// Decls renders sort and datatype declarations.
func (ss *Sorts) Decls() string {
	var sb strings.Builder
	sb.WriteString("(declare-sort Str 0)\n(declare-sort Any 0)\n(declare-sort Flt 0)\n")
	for tp := range ss.tparams {
		_ = tp
	}
	tps := make([]string, 0, len(ss.tparams))
	for tp := range ss.tparams {
		tps = append(tps, tp)
	}
	sortStrings(tps)
	for _, tp := range tps {
		sb.WriteString("(declare-sort " + tp + " 0)\n")
	}
	sb.WriteString("(declare-datatypes ((Slc 0)) (((mk!Slc (Slc!base Int) (Slc!off Int) (Slc!len Int) (Slc!cap Int)))))\n")
	for _, si := range ss.order {
		sb.WriteString("(declare-datatypes ((" + string(si.Sort) + " 0)) (((" + si.Ctor())
		for _, f := range si.Fields {
			sb.WriteString(" (" + f.Acc + " " + string(f.Sort) + ")")
		}
		sb.WriteString("))))\n")
	}
	sb.WriteString("(declare-fun slot (Int Int) Int)\n(assert (forall ((o Int) (i Int)) (! (= (slot o i) (+ o i)) :pattern ((slot o i)))))\n")
	sb.WriteString("(declare-fun typeof (Any) Int)\n(declare-const anynil Any)\n(assert (= (typeof anynil) 0))\n")
	sb.WriteString("(declare-fun strlen (Str) Int)\n(assert (forall ((s Str)) (! (>= (strlen s) 0) :pattern ((strlen s)))))\n")
	sb.WriteString("(declare-fun strcat (Str Str) Str)\n(declare-fun strlt (Str Str) Bool)\n(declare-fun eqfold (Str Str) Bool)\n")
	// Go's < on strings is a strict total order
	sb.WriteString("(assert (forall ((a Str)) (! (not (strlt a a)) :pattern ((strlt a a)))))\n")
	sb.WriteString("(assert (forall ((a Str) (b Str)) (! (and (=> (strlt a b) (not (strlt b a))) (=> (not (= a b)) (or (strlt a b) (strlt b a)))) :pattern ((strlt a b)))))\n")
	sb.WriteString("(assert (forall ((a Str) (b Str) (c Str)) (! (=> (and (strlt a b) (strlt b c)) (strlt a c)) :pattern ((strlt a b) (strlt b c)))))\n")
	sb.WriteString("(assert (forall ((a Str)) (! (eqfold a a) :pattern ((eqfold a a)))))\n")
	sb.WriteString("(assert (forall ((a Str) (b Str)) (! (= (eqfold a b) (eqfold b a)) :pattern ((eqfold a b)))))\n")
	return sb.String()
}

func sortStrings(xs []string) {
	for i := 1; i < len(xs); i++ {
		for j := i; j > 0 && xs[j] < xs[j-1]; j-- {
			xs[j], xs[j-1] = xs[j-1], xs[j]
		}
	}
}

type unsupportedErr struct{ msg string }

func (u unsupportedErr) Error() string { return "unsupported: " + u.msg }
func unsupported(msg string) error     { return unsupportedErr{msg} }
