package main

// C05 - structural obligations over go/ssa and go/types: a transformation that renames objects or
// computes the set of referenced objects walks the IR with a compiler.Visitor; to keep every
// reference resolving it has to handle every kind of ast.Type that names another object. The
// reference-carrying kinds are derived from the declaration of ast.Type (payload structs with
// ReferredPkg and ReferredType fields); the callbacks a function registers are read off the Visitor
// literal it builds. Discharged by the generator (boolean goal), not by an SMT query.

import (
	"go/types"
	"path/filepath"
	"sort"
	"strings"

	"golang.org/x/tools/go/ssa"
)

// referenceTrackers: the functions whose visitor renames references or collects referenced objects.
var referenceTrackers = []string{
	"compiler.(*RenameObject).Process",
	"compiler.(*PrefixObjectNames).Process",
	"compiler.(*FilterSchemas).buildAllowList",
	"compiler.(*Unspec).Process",
}

// referenceKinds: the payload fields of ast.Type that name another object, e.g. Ref, ConstantReference.
func (e *Engine) referenceKinds() []string {
	var out []string
	for _, pk := range e.pkgs {
		if pk.Types == nil || pkgID(pk.Types) != "ast" {
			continue
		}
		tn, ok := pk.Types.Scope().Lookup("Type").(*types.TypeName)
		if !ok {
			continue
		}
		st, ok := tn.Type().Underlying().(*types.Struct)
		if !ok {
			continue
		}
		for i := 0; i < st.NumFields(); i++ {
			p, ok := st.Field(i).Type().(*types.Pointer)
			if !ok {
				continue
			}
			ps, ok := p.Elem().Underlying().(*types.Struct)
			if !ok {
				continue
			}
			hasPkg, hasType := false, false
			for j := 0; j < ps.NumFields(); j++ {
				switch ps.Field(j).Name() {
				case "ReferredPkg":
					hasPkg = true
				case "ReferredType":
					hasType = true
				}
			}
			if hasPkg && hasType {
				out = append(out, st.Field(i).Name())
			}
		}
	}
	sort.Strings(out)
	return out
}

// visitorFieldsSet: the fields of compiler.Visitor literals built by fn (and its closures' parents).
func visitorFieldsSet(fn *ssa.Function) (map[string]bool, bool) {
	set := map[string]bool{}
	found := false
	for _, b := range fn.Blocks {
		for _, in := range b.Instrs {
			fa, ok := in.(*ssa.FieldAddr)
			if !ok {
				continue
			}
			pt, ok := fa.X.Type().Underlying().(*types.Pointer)
			if !ok {
				continue
			}
			nt, ok := pt.Elem().(*types.Named)
			if !ok || nt.Obj().Name() != "Visitor" || nt.Obj().Pkg() == nil || nt.Obj().Pkg().Name() != "compiler" {
				continue
			}
			if _, isAlloc := fa.X.(*ssa.Alloc); !isAlloc {
				continue
			}
			st := nt.Underlying().(*types.Struct)
			for _, r := range *fa.Referrers() {
				if s, isStore := r.(*ssa.Store); isStore && s.Addr == ssa.Value(fa) {
					found = true
					set[st.Field(fa.Field).Name()] = true
				}
			}
		}
	}
	return set, found
}

func (e *Engine) refKindsResult() *FuncResult {
	ctx := newCtx(e, e.anyFunction())
	ctx.fnKey = "c05-refkinds"
	res := &FuncResult{Key: "c05-refkinds", Ctx: ctx}
	kinds := e.referenceKinds()
	ctx.addOblig("refkinds", "ast.Type:reference-carrying-kinds-known", BoolLit(len(kinds) >= 2), "internal/ast/types.go")
	for _, key := range referenceTrackers {
		fn := e.fnByKey[key]
		if fn == nil {
			ctx.addOblig("refkinds", key+":exists", BoolLit(false), "")
			continue
		}
		set, found := visitorFieldsSet(fn)
		ctx.addOblig("refkinds", key+":builds-a-visitor", BoolLit(found), e.pos(fn))
		for _, k := range kinds {
			cands := []string{"On" + k, "On" + strings.Replace(k, "Reference", "Ref", 1)}
			ok := false
			for _, c := range cands {
				if set[c] {
					ok = true
				}
			}
			ctx.addOblig("refkinds", key+":handles:"+k, BoolLit(ok), e.pos(fn))
		}
		// completeness of the claim: every callback this name-changing / reference-collecting visitor registers is
		// a function under a C05 contract - a callback added later (say OnDisjunction rewriting discriminator
		// mappings) is not silently outside the claim
		for field, target := range e.visitorCallbacks(fn) {
			ct := e.contractFor(target)
			under := false
			if ct != nil {
				for _, p := range ct.Props {
					if p == "C05" {
						under = true
					}
				}
			}
			ctx.addOblig("refkinds", key+":callback-"+field+"-is-under-contract", BoolLit(under), e.pos(target))
		}
	}
	res.Obligs = ctx.obligs
	return res
}

// visitorCallbacks: field name -> function stored into that field of a compiler.Visitor literal of fn
// (bound methods resolved to the method).
func (e *Engine) visitorCallbacks(fn *ssa.Function) map[string]*ssa.Function {
	out := map[string]*ssa.Function{}
	for _, b := range fn.Blocks {
		for _, in := range b.Instrs {
			st, ok := in.(*ssa.Store)
			if !ok {
				continue
			}
			fa, ok := st.Addr.(*ssa.FieldAddr)
			if !ok {
				continue
			}
			pt, ok := fa.X.Type().Underlying().(*types.Pointer)
			if !ok {
				continue
			}
			nt, ok := pt.Elem().(*types.Named)
			if !ok || nt.Obj().Name() != "Visitor" || nt.Obj().Pkg() == nil || nt.Obj().Pkg().Name() != "compiler" {
				continue
			}
			var target *ssa.Function
			v := st.Val
			if ct, isCT := v.(*ssa.ChangeType); isCT {
				v = ct.X
			}
			switch x := v.(type) {
			case *ssa.MakeClosure:
				cf, _ := x.Fn.(*ssa.Function)
				if cf != nil && cf.Synthetic != "" && len(x.Bindings) == 1 {
					if m, isM := cf.Object().(*types.Func); isM {
						target = e.prog.FuncValue(m)
					}
				} else {
					target = cf
				}
			case *ssa.Function:
				target = x
			}
			if target != nil {
				out[nt.Underlying().(*types.Struct).Field(fa.Field).Name()] = target
			}
		}
	}
	return out
}

func (e *Engine) pos(fn *ssa.Function) string {
	if fn == nil || fn.Prog == nil {
		return ""
	}
	p := fn.Prog.Fset.Position(fn.Pos())
	return strings.TrimPrefix(p.String(), e.repo+"/")
}

// ---- every pass that writes the name of an object keeps the references in step -----------------------
//
// nameWriters: the functions of the compiler package that store into the Name field of an ast.Object.
// Each has to be classified in the lock ("C05-names <function> renames|creates ..."): `creates` - the object
// is a new one (a copy registered under another name, the original stays); `renames` - an object of the
// schema changes its name, and then the Process method of the pass has to be a reference tracker (it builds
// a visitor that handles every reference-carrying kind of ast.Type, with every callback under a C05
// contract) and has to write Schema.EntryPoint somewhere in the pass's own functions. A name writer that
// is not classified fails, so a new renaming pass is not silently outside the claim.
func (e *Engine) nameWriters() map[string]*ssa.Function {
	out := map[string]*ssa.Function{}
	for k, fn := range e.fnByKey {
		if !strings.HasPrefix(k, "compiler.") {
			continue
		}
		for _, b := range fn.Blocks {
			for _, in := range b.Instrs {
				st, ok := in.(*ssa.Store)
				if !ok {
					continue
				}
				fa, ok := st.Addr.(*ssa.FieldAddr)
				if !ok {
					continue
				}
				pt, ok := fa.X.Type().Underlying().(*types.Pointer)
				if !ok {
					continue
				}
				nt, ok := pt.Elem().(*types.Named)
				if !ok || nt.Obj().Name() != "Object" || nt.Obj().Pkg() == nil || nt.Obj().Pkg().Name() != "ast" {
					continue
				}
				if nt.Underlying().(*types.Struct).Field(fa.Field).Name() == "Name" {
					out[k] = fn
				}
			}
		}
	}
	return out
}

// passFunctions: the methods of the receiver type of key (a pass) and their closures.
func (e *Engine) passFunctions(key string) []*ssa.Function {
	i := strings.Index(key, ").")
	if i < 0 {
		return nil
	}
	prefix := key[:i+2]
	var out []*ssa.Function
	for k, fn := range e.fnByKey {
		if strings.HasPrefix(k, prefix) {
			out = append(out, fn)
		}
	}
	return out
}

func (e *Engine) nameWritersResult() *FuncResult {
	ctx := newCtx(e, e.anyFunction())
	ctx.fnKey = "c05-name-writers"
	res := &FuncResult{Key: "c05-name-writers", Ctx: ctx}
	class := map[string]string{}
	for _, l := range loadLock(filepath.Join(verifRoot(), "obligations.lock"), "C05-names") {
		if f := strings.Fields(l); len(f) >= 2 {
			class[f[0]] = f[1]
		}
	}
	known := map[string]bool{}
	for _, l := range loadLock(filepath.Join(verifRoot(), "obligations.lock"), "C05-names-known") {
		if f := strings.Fields(l); len(f) >= 1 {
			known[f[0]] = true
		}
	}
	writers := e.nameWriters()
	var keys []string
	for k := range writers {
		keys = append(keys, k)
	}
	sort.Strings(keys)
	ctx.addOblig("refkinds", "name-writers-enumerated", BoolLit(len(keys) >= 2), "internal/ast/compiler")
	kinds := e.referenceKinds()
	tracked := map[string]bool{}
	for _, t := range referenceTrackers {
		tracked[t] = true
	}
	for _, k := range keys {
		fn := writers[k]
		c := class[k]
		ctx.addOblig("refkinds", k+":name-writer-is-classified", BoolLit(c == "renames" || c == "creates" || known[k]), e.pos(fn))
		if c != "renames" {
			continue
		}
		i := strings.Index(k, ").")
		if i < 0 {
			ctx.addOblig("refkinds", k+":renaming-function-is-a-method-of-a-pass", BoolLit(false), e.pos(fn))
			continue
		}
		proc := k[:i+2] + "Process"
		pf := e.fnByKey[proc]
		ctx.addOblig("refkinds", proc+":renaming-pass-has-a-Process-method", BoolLit(pf != nil), e.pos(fn))
		if pf == nil {
			continue
		}
		if !tracked[proc] {
			// not in the fixed list above: the same obligations, generated here
			set, found := visitorFieldsSet(pf)
			ctx.addOblig("refkinds", proc+":builds-a-visitor", BoolLit(found), e.pos(pf))
			for _, kd := range kinds {
				ok := set["On"+kd] || set["On"+strings.Replace(kd, "Reference", "Ref", 1)]
				ctx.addOblig("refkinds", proc+":handles:"+kd, BoolLit(ok), e.pos(pf))
			}
		}
		// discriminator mappings name objects too (bare names of the union's own package): a renaming pass
		// registers OnDisjunction (the mapping of a union) and OnStruct (its copy kept as a hint)
		if set, found := visitorFieldsSet(pf); found {
			ctx.addOblig("refkinds", proc+":rewrites-discriminator-mappings", BoolLit(set["OnDisjunction"] && set["OnStruct"]), e.pos(pf))
		}
		// the renaming visitor runs over ALL the schemas the pass was given (a reference to the renamed
		// object can sit in any of them): Process hands its own schemas parameter to VisitSchemas
		visitsAll := false
		for _, b := range pf.Blocks {
			for _, in := range b.Instrs {
				c, ok := in.(*ssa.Call)
				if !ok {
					continue
				}
				sc := c.Call.StaticCallee()
				if sc == nil || funcKey(sc) != "compiler.(*Visitor).VisitSchemas" || len(c.Call.Args) != 2 || len(pf.Params) < 2 {
					continue
				}
				arg := c.Call.Args[1]
				if ct, isCT := arg.(*ssa.ChangeType); isCT { // []*ast.Schema -> ast.Schemas
					arg = ct.X
				}
				if arg == ssa.Value(pf.Params[1]) {
					visitsAll = true
				}
				// the parameter spilled into a local cell that is only ever assigned the parameter
				if ld, isLoad := arg.(*ssa.UnOp); isLoad {
					if al, isAlloc := ld.X.(*ssa.Alloc); isAlloc {
						only := true
						n := 0
						for _, r := range *al.Referrers() {
							if st, isStore := r.(*ssa.Store); isStore && st.Addr == ssa.Value(al) {
								n++
								if st.Val != ssa.Value(pf.Params[1]) {
									only = false
								}
							}
						}
						if only && n > 0 {
							visitsAll = true
						}
					}
				}
			}
		}
		ctx.addOblig("refkinds", proc+":renaming-visitor-is-applied-to-every-schema", BoolLit(visitsAll), e.pos(pf))
		// the entry point names an object of the schema: a renaming pass writes it somewhere
		writesEntry := false
		for _, f := range e.passFunctions(proc) {
			for _, b := range f.Blocks {
				for _, in := range b.Instrs {
					st, ok := in.(*ssa.Store)
					if !ok {
						continue
					}
					fa, ok := st.Addr.(*ssa.FieldAddr)
					if !ok {
						continue
					}
					pt, ok := fa.X.Type().Underlying().(*types.Pointer)
					if !ok {
						continue
					}
					nt, ok := pt.Elem().(*types.Named)
					if ok && nt.Obj().Name() == "Schema" && nt.Underlying().(*types.Struct).Field(fa.Field).Name() == "EntryPoint" {
						writesEntry = true
					}
				}
			}
		}
		ctx.addOblig("refkinds", proc+":entry-point-is-kept-in-step", BoolLit(writesEntry), e.pos(pf))
	}
	res.Obligs = ctx.obligs
	return res
}
