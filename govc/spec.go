package main

// Contract language: lexer, parser and contract-file reader. Contracts live in comment-only files
// (zz_contracts_verif.go, //go:build verif) next to the code in /repo; every line starts with //@.

import (
	"go/types"
	"fmt"
	"os"
	"path/filepath"
	"strconv"
	"strings"
)

type SKind int

const (
	SIdent SKind = iota
	SIntLit
	SStrLit
	SBoolLit
	SNil
	SUnary
	SBinary
	SCall   // Name(args)
	SField  // X.Name
	SMethod // X.Name(args)
	SIndex  // X[I]
	SQuant  // forall/exists
	SSlice  // X[lo:hi]
	SExistsFn // existsfn f: T -> R :: body
)

type Binder struct {
	Name string
	Type string // textual type
}

type SExpr struct {
	Kind    SKind
	Name    string // ident, op, call/field name, quantifier kind
	Args    []*SExpr
	Int     int64
	Str     string
	Bool    bool
	Binders []Binder
	Label   string   // named existential: exists i: int @pos :: ...
	Witness []*SExpr // explicit witnesses (one per binder) for goal-position existentials
	Trigger []*SExpr
	Pos     int
}

func (e *SExpr) String() string {
	switch e.Kind {
	case SIdent:
		return e.Name
	case SIntLit:
		return strconv.FormatInt(e.Int, 10)
	case SStrLit:
		return strconv.Quote(e.Str)
	case SBoolLit:
		return strconv.FormatBool(e.Bool)
	case SNil:
		return "nil"
	case SUnary:
		return e.Name + e.Args[0].String()
	case SBinary:
		return "(" + e.Args[0].String() + " " + e.Name + " " + e.Args[1].String() + ")"
	case SCall:
		var as []string
		for _, a := range e.Args {
			as = append(as, a.String())
		}
		return e.Name + "(" + strings.Join(as, ", ") + ")"
	case SField:
		return e.Args[0].String() + "." + e.Name
	case SMethod:
		var as []string
		for _, a := range e.Args[1:] {
			as = append(as, a.String())
		}
		return e.Args[0].String() + "." + e.Name + "(" + strings.Join(as, ", ") + ")"
	case SIndex:
		return e.Args[0].String() + "[" + e.Args[1].String() + "]"
	case SQuant:
		var bs []string
		for _, b := range e.Binders {
			bs = append(bs, b.Name+": "+b.Type)
		}
		return "(" + e.Name + " " + strings.Join(bs, ", ") + " :: " + e.Args[0].String() + ")"
	}
	return "?"
}

// ---- lexer -----------------------------------------------------------------------------------

type tok struct {
	k   string // "id", "int", "str", "op", "eof"
	s   string
	pos int
}

func lex(src string) ([]tok, error) {
	var out []tok
	i := 0
	ops := []string{"<==>", "==>", "->", "&&", "||", "==", "!=", "<=", ">=", "::", ":=", "<", ">", "+", "-", "*", "/", "%", "!", "(", ")", "[", "]", "{", "}", ".", ",", ":", "@", "=", ";"}
	for i < len(src) {
		c := src[i]
		switch {
		case c == ' ' || c == '\t' || c == '\n' || c == '\r':
			i++
		case c >= '0' && c <= '9':
			j := i
			for j < len(src) && src[j] >= '0' && src[j] <= '9' {
				j++
			}
			out = append(out, tok{"int", src[i:j], i})
			i = j
		case c == '"':
			j := i + 1
			for j < len(src) && src[j] != '"' {
				if src[j] == '\\' {
					j++
				}
				j++
			}
			if j >= len(src) {
				return nil, fmt.Errorf("unterminated string at %d", i)
			}
			s, err := strconv.Unquote(src[i : j+1])
			if err != nil {
				return nil, err
			}
			out = append(out, tok{"str", s, i})
			i = j + 1
		case c == '_' || c == '$' || (c >= 'a' && c <= 'z') || (c >= 'A' && c <= 'Z'):
			j := i + 1
			for j < len(src) && (src[j] == '_' || src[j] == '$' || (src[j] >= 'a' && src[j] <= 'z') || (src[j] >= 'A' && src[j] <= 'Z') || (src[j] >= '0' && src[j] <= '9')) {
				j++
			}
			out = append(out, tok{"id", src[i:j], i})
			i = j
		default:
			matched := false
			for _, op := range ops {
				if strings.HasPrefix(src[i:], op) {
					out = append(out, tok{"op", op, i})
					i += len(op)
					matched = true
					break
				}
			}
			if !matched {
				return nil, fmt.Errorf("unexpected character %q at %d in %q", c, i, src)
			}
		}
	}
	out = append(out, tok{"eof", "", len(src)})
	return out, nil
}

// ---- parser ----------------------------------------------------------------------------------

type parser struct {
	toks []tok
	p    int
	src  string
}

func (p *parser) peek() tok { return p.toks[p.p] }
func (p *parser) next() tok { t := p.toks[p.p]; p.p++; return t }
func (p *parser) isOp(s string) bool {
	t := p.peek()
	return t.k == "op" && t.s == s
}
func (p *parser) isID(s string) bool {
	t := p.peek()
	return t.k == "id" && t.s == s
}
func (p *parser) expectOp(s string) {
	if !p.isOp(s) {
		panic(fmt.Errorf("expected %q at %d in %q (got %q)", s, p.peek().pos, p.src, p.peek().s))
	}
	p.next()
}

func ParseSpecExpr(src string) (e *SExpr, err error) {
	toks, err := lex(src)
	if err != nil {
		return nil, err
	}
	p := &parser{toks: toks, src: src}
	defer func() {
		if r := recover(); r != nil {
			if er, ok := r.(error); ok {
				err = er
				return
			}
			panic(r)
		}
	}()
	e = p.expr()
	if p.peek().k != "eof" {
		return nil, fmt.Errorf("trailing input at %d in %q", p.peek().pos, src)
	}
	return e, nil
}

func (p *parser) expr() *SExpr { return p.iff() }

func (p *parser) iff() *SExpr {
	l := p.implies()
	for p.isOp("<==>") {
		p.next()
		r := p.implies()
		l = &SExpr{Kind: SBinary, Name: "<==>", Args: []*SExpr{l, r}}
	}
	return l
}

func (p *parser) implies() *SExpr {
	l := p.or()
	if p.isOp("==>") {
		p.next()
		r := p.implies()
		return &SExpr{Kind: SBinary, Name: "==>", Args: []*SExpr{l, r}}
	}
	return l
}

func (p *parser) or() *SExpr {
	l := p.and()
	for p.isOp("||") {
		p.next()
		r := p.and()
		l = &SExpr{Kind: SBinary, Name: "||", Args: []*SExpr{l, r}}
	}
	return l
}

func (p *parser) and() *SExpr {
	l := p.cmp()
	for p.isOp("&&") {
		p.next()
		r := p.cmp()
		l = &SExpr{Kind: SBinary, Name: "&&", Args: []*SExpr{l, r}}
	}
	return l
}

func (p *parser) cmp() *SExpr {
	l := p.sum()
	for {
		t := p.peek()
		if t.k == "op" && (t.s == "==" || t.s == "!=" || t.s == "<" || t.s == "<=" || t.s == ">" || t.s == ">=") {
			p.next()
			r := p.sum()
			l = &SExpr{Kind: SBinary, Name: t.s, Args: []*SExpr{l, r}}
			continue
		}
		return l
	}
}

func (p *parser) sum() *SExpr {
	l := p.prod()
	for p.isOp("+") || p.isOp("-") {
		op := p.next().s
		r := p.prod()
		l = &SExpr{Kind: SBinary, Name: op, Args: []*SExpr{l, r}}
	}
	return l
}

func (p *parser) prod() *SExpr {
	l := p.unary()
	for p.isOp("*") {
		op := p.next().s
		r := p.unary()
		l = &SExpr{Kind: SBinary, Name: op, Args: []*SExpr{l, r}}
	}
	return l
}

func (p *parser) unary() *SExpr {
	if p.isOp("!") || p.isOp("-") {
		op := p.next().s
		x := p.unary()
		return &SExpr{Kind: SUnary, Name: op, Args: []*SExpr{x}}
	}
	return p.postfix()
}

func (p *parser) postfix() *SExpr {
	x := p.primary()
	for {
		switch {
		case p.isOp("."):
			p.next()
			name := p.next()
			if name.k != "id" && name.k != "int" {
				panic(fmt.Errorf("expected field name at %d in %q", name.pos, p.src))
			}
			if p.isOp("(") {
				args := p.args()
				x = &SExpr{Kind: SMethod, Name: name.s, Args: append([]*SExpr{x}, args...)}
			} else {
				x = &SExpr{Kind: SField, Name: name.s, Args: []*SExpr{x}}
			}
		case p.isOp("["):
			p.next()
			if p.isOp(":") {
				p.next()
				hi := p.expr()
				p.expectOp("]")
				x = &SExpr{Kind: SSlice, Args: []*SExpr{x, nil, hi}}
				continue
			}
			i := p.expr()
			if p.isOp(":") {
				p.next()
				var hi *SExpr
				if !p.isOp("]") {
					hi = p.expr()
				}
				p.expectOp("]")
				x = &SExpr{Kind: SSlice, Args: []*SExpr{x, i, hi}}
				continue
			}
			p.expectOp("]")
			x = &SExpr{Kind: SIndex, Args: []*SExpr{x, i}}
		default:
			return x
		}
	}
}

func (p *parser) args() []*SExpr {
	p.expectOp("(")
	var as []*SExpr
	for !p.isOp(")") {
		as = append(as, p.expr())
		if p.isOp(",") {
			p.next()
		}
	}
	p.expectOp(")")
	return as
}

// typeText parses a textual type up to "::" or "," at depth 0 or "@".
func (p *parser) typeText() string {
	var sb strings.Builder
	depth := 0
	for {
		t := p.peek()
		if t.k == "eof" {
			break
		}
		if depth == 0 && t.k == "op" && (t.s == "::" || t.s == "," || t.s == "@") {
			break
		}
		if t.k == "op" && (t.s == "[" || t.s == "(") {
			depth++
		}
		if t.k == "op" && (t.s == "]" || t.s == ")") {
			depth--
		}
		sb.WriteString(t.s)
		p.next()
	}
	return sb.String()
}

func (p *parser) primary() *SExpr {
	t := p.next()
	switch t.k {
	case "int":
		v, _ := strconv.ParseInt(t.s, 10, 64)
		return &SExpr{Kind: SIntLit, Int: v}
	case "str":
		return &SExpr{Kind: SStrLit, Str: t.s}
	case "id":
		switch t.s {
		case "true", "false":
			return &SExpr{Kind: SBoolLit, Bool: t.s == "true"}
		case "nil":
			return &SExpr{Kind: SNil}
		case "existsfn":
			n := p.next()
			p.expectOp(":")
			var at, rt strings.Builder
			cur := &at
			for !p.isOp("::") {
				tk := p.next()
				if tk.k == "eof" {
					panic(fmt.Errorf("existsfn: missing :: in %q", p.src))
				}
				if tk.k == "op" && tk.s == "->" {
					cur = &rt
					continue
				}
				cur.WriteString(tk.s)
			}
			p.expectOp("::")
			body := p.expr()
			return &SExpr{Kind: SExistsFn, Name: n.s, Label: n.s, Binders: []Binder{{"arg", at.String()}, {"res", rt.String()}}, Args: []*SExpr{body}}
		case "forall", "exists":
			q := &SExpr{Kind: SQuant, Name: t.s}
			for {
				// binders: a, b: T
				var names []string
				for {
					n := p.next()
					if n.k != "id" {
						panic(fmt.Errorf("expected binder name at %d in %q", n.pos, p.src))
					}
					names = append(names, n.s)
					if p.isOp(",") {
						p.next()
						continue
					}
					break
				}
				p.expectOp(":")
				ty := p.typeText()
				for _, n := range names {
					q.Binders = append(q.Binders, Binder{n, ty})
				}
				if p.isOp(",") {
					p.next()
					continue
				}
				break
			}
			if p.isOp("@") {
				p.next()
				q.Label = p.next().s
			}
			p.expectOp("::")
			if p.isOp("{") { // trigger
				p.next()
				for !p.isOp("}") {
					q.Trigger = append(q.Trigger, p.expr())
					if p.isOp(",") {
						p.next()
					}
				}
				p.next()
			}
			body := p.expr()
			q.Args = []*SExpr{body}
			if p.isID("witness") {
				p.next()
				for {
					q.Witness = append(q.Witness, p.cmp())
					if p.isOp(",") {
						p.next()
						continue
					}
					break
				}
			}
			return q
		}
		if p.isOp("(") {
			args := p.args()
			return &SExpr{Kind: SCall, Name: t.s, Args: args}
		}
		return &SExpr{Kind: SIdent, Name: t.s}
	case "op":
		if t.s == "(" {
			e := p.expr()
			p.expectOp(")")
			return e
		}
	}
	panic(fmt.Errorf("unexpected token %q at %d in %q", t.s, t.pos, p.src))
}

// ---- contracts -------------------------------------------------------------------------------

// AtCall: an assertion on the state in which a callee is entered ($arg0.. are the call's arguments,
// receiver first; $i is the index of the last completed iteration of the innermost enclosing range loop).
type AtCall struct {
	Key    string
	Clause Clause
	Let    string     // at-call "key" let x := expr: the ghost register $x takes the value of expr in the state in which key is entered
	LetT   types.Type // type of the register (known once the expression has been evaluated)
	LetS   Sort
}

type Clause struct {
	Binding bool // `binds`: a precondition over the (value) receiver only, checked where the method is bound to its receiver
	Label string
	Expr  *SExpr
	Text  string
	Wit   map[string]*SExpr // witness hints for named existentials in goal position
	WitParam map[string]string // parameter name of a function witness: witness pos(k) := e
}

type LoopContract struct {
	Invariants []Clause
	Decreases  *SExpr
	Wit        map[string]*SExpr // witnesses for preconditions of calls made inside the loop body
	WitParam   map[string]string
}

type GhostLet struct {
	Name string
	Expr *SExpr
}

type SpecFunc struct {
	Name   string
	Params []string
	PTypes []string
	Result string
	Body   *SExpr // nil => uninterpreted
	File   string
	Pkg    string // id of the package whose contract file declares it
}

type Contract struct {
	Key      string
	File     string
	Requires []Clause
	Assumes  []Clause // standing IR assumptions on the inputs: assumed at entry, not checked at call sites, listed in the trusted base
	Ensures  []Clause
	Ghosts   []GhostLet
	Loops    map[int]*LoopContract
	InlinedLoops map[int]*LoopContract // invariants for the N-th loop met while expanding inlined helpers
	NoPanic  bool
	Inline   bool
	Pure     bool
	PureCallbacks bool // precondition: function-typed parameters do not write pre-existing memory
	FieldFn  bool // contract of the function values stored in a struct field (callback protocol)
	ParamOffset int // derived contracts: index of the first parameter the names are bound to
	FuncType bool // contract of a named function type: holds for every function value of that type
	ParamNames []string // functype-derived contracts: the type's parameter names, bound by position
	CopyFamily bool // a DeepCopy method: contract synthesised from the type declaration (C18)
	Fresh    bool   // writes only memory allocated in its own activation (checked: frame obligations)
	Expand   []string // callees whose bodies are executed at this function's call sites although they have a contract
	RoleKey  string // the key as written when the contract is bound by role (Parent@Role)
	AtCalls  []AtCall // at-call "key" label: expr - checked in the state right before every call to key made while executing this function
	Traced   bool     // calls to this function are recorded as ghost facts called!key(args), usable as called("key", args...) in callers' contracts
	Keeps    []string // struct-name prefixes (e.g. "compiler.") whose fields the function does not write (assumed contracts)
	Modifies []string
	ModifiesSet bool
	Props    []string
	Trusted  bool // assume-contract
	CopyOf   string
	Calls    map[string][]Clause // per call-site hints (unused)
	Lines    int
}

type ContractSet struct {
	Funcs     map[string]*Contract
	SpecFuncs map[string]*SpecFunc
	Axioms    []Clause
	Files     []string
}

func NewContractSet() *ContractSet {
	return &ContractSet{Funcs: map[string]*Contract{}, SpecFuncs: map[string]*SpecFunc{}}
}

// LoadContractFile parses one contract file; pkgName qualifies function keys.
func (cs *ContractSet) LoadContractFile(path string, pkgName string) error {
	data, err := os.ReadFile(path)
	if err != nil {
		return err
	}
	return cs.LoadContractText(string(data), path, pkgName)
}

func (cs *ContractSet) LoadContractText(text, path, pkgName string) error {
	cs.Files = append(cs.Files, path)
	// join continuation lines: a line whose first token is not a keyword continues the previous item
	var items []string
	var lineNo []int
	for i, ln := range strings.Split(text, "\n") {
		t := strings.TrimSpace(ln)
		if !strings.HasPrefix(t, "//@") {
			continue
		}
		t = strings.TrimSpace(strings.TrimPrefix(t, "//@"))
		if t == "" {
			continue
		}
		if j := strings.Index(t, " //"); j >= 0 { // trailing comment
			t = strings.TrimSpace(t[:j])
		}
		first := t
		if j := strings.IndexAny(t, " \t:"); j >= 0 {
			first = t[:j]
		}
		switch first {
		case "spec", "axiom", "lemma", "func", "functype", "fieldfn", "assume-contract", "requires", "assumes", "ensures", "invariant", "ghost", "decreases",
			"modifies", "keeps", "traced", "nopanic", "pure", "inline", "loop", "inlined-loop", "property", "fresh", "copyof", "callbacks-modify-nothing", "witness", "at-call", "expand", "binds":
			items = append(items, t)
			lineNo = append(lineNo, i+1)
		default:
			if len(items) == 0 {
				return fmt.Errorf("%s:%d: continuation without item", path, i+1)
			}
			items[len(items)-1] += " " + t
		}
	}
	var cur *Contract
	var curLoop *LoopContract
	fail := func(i int, err error) error { return fmt.Errorf("%s:%d: %v", filepath.Base(path), lineNo[i], err) }
	for i, it := range items {
		kw, rest := it, ""
		if j := strings.IndexAny(it, " \t"); j >= 0 {
			kw, rest = it[:j], strings.TrimSpace(it[j+1:])
		}
		if strings.HasPrefix(kw, "loop") && strings.Contains(it, ":") && !strings.HasPrefix(it, "loop ") {
			kw = "loop"
			rest = strings.TrimPrefix(it, "loop")
		}
		parseClause := func(s string) (Clause, error) {
			label := ""
			// optional label: "name: expr" only if name is a bare identifier followed by ": " and not a binder
			if j := strings.Index(s, ": "); j > 0 && isBareIdent(s[:j]) && !strings.HasPrefix(s, "forall") && !strings.HasPrefix(s, "exists") {
				label = s[:j]
				s = strings.TrimSpace(s[j+2:])
			}
			var wit map[string]*SExpr
			var witp map[string]string
			for {
				j := strings.LastIndex(s, " witness ")
				if j < 0 {
					break
				}
				w := strings.TrimSpace(s[j+len(" witness "):])
				k := strings.Index(w, ":=")
				if k < 0 {
					break
				}
				wname, wparam := strings.TrimSpace(w[:k]), ""
				if o := strings.Index(wname, "("); o > 0 && strings.HasSuffix(wname, ")") {
					wparam = strings.TrimSpace(wname[o+1 : len(wname)-1])
					wname = strings.TrimSpace(wname[:o])
				}
				if k < 0 || !isBareIdent(wname) {
					break
				}
				we, err := ParseSpecExpr(strings.TrimSpace(w[k+2:]))
				if err != nil {
					return Clause{}, err
				}
				if wit == nil {
					wit = map[string]*SExpr{}
					witp = map[string]string{}
				}
				wit[wname] = we
				witp[wname] = wparam
				s = strings.TrimSpace(s[:j])
			}
			e, err := ParseSpecExpr(s)
			return Clause{Label: label, Expr: e, Text: s, Wit: wit, WitParam: witp}, err
		}
		switch kw {
		case "spec":
			// spec [func] name(params) [type] = expr     |   spec [func] name(p: T, ...) T   (uninterpreted)
			r := strings.TrimSpace(strings.TrimPrefix(rest, "func"))
			open := strings.Index(r, "(")
			if open < 0 {
				return fail(i, fmt.Errorf("bad spec func"))
			}
			name := strings.TrimSpace(r[:open])
			depth, close := 0, -1
			for k := open; k < len(r); k++ {
				if r[k] == '(' {
					depth++
				} else if r[k] == ')' {
					depth--
					if depth == 0 {
						close = k
						break
					}
				}
			}
			if close < 0 {
				return fail(i, fmt.Errorf("bad spec func params"))
			}
			sf := &SpecFunc{Name: name, File: path, Pkg: pkgName}
			for _, prm := range splitTop(r[open+1:close], ',') {
				prm = strings.TrimSpace(prm)
				if prm == "" {
					continue
				}
				pn, pt := prm, ""
				if j := strings.IndexAny(prm, " :"); j >= 0 {
					pn, pt = prm[:j], strings.TrimSpace(strings.TrimLeft(prm[j:], " :"))
				}
				sf.Params = append(sf.Params, pn)
				sf.PTypes = append(sf.PTypes, pt)
			}
			tail := strings.TrimSpace(r[close+1:])
			if j := strings.Index(tail, "="); j >= 0 && !strings.HasPrefix(tail[j:], "==") {
				sf.Result = strings.TrimSpace(tail[:j])
				e, err := ParseSpecExpr(strings.TrimSpace(tail[j+1:]))
				if err != nil {
					return fail(i, err)
				}
				sf.Body = e
			} else {
				sf.Result = tail
			}
			cs.SpecFuncs[pkgName+"."+name] = sf
			if _, dup := cs.SpecFuncs[name]; !dup {
				cs.SpecFuncs[name] = sf
			}
			cur, curLoop = nil, nil
		case "axiom", "lemma":
			c, err := parseClause(rest)
			if err != nil {
				return fail(i, err)
			}
			cs.Axioms = append(cs.Axioms, c)
			cur, curLoop = nil, nil
		case "fieldfn":
			key := pkgName + ".fieldfn:" + strings.TrimSpace(rest)
			cur = &Contract{Key: key, File: path, Loops: map[int]*LoopContract{}, FieldFn: true}
			cs.Funcs[key] = cur
			curLoop = nil
		case "functype":
			key := pkgName + ".functype:" + strings.TrimSpace(rest)
			cur = &Contract{Key: key, File: path, Loops: map[int]*LoopContract{}, FuncType: true}
			cs.Funcs[key] = cur
			curLoop = nil
		case "func", "assume-contract":
			key := pkgName + "." + strings.TrimSpace(rest)
			cur = &Contract{Key: key, File: path, Loops: map[int]*LoopContract{}, Trusted: kw == "assume-contract"}
			if _, dup := cs.Funcs[key]; dup {
				return fail(i, fmt.Errorf("duplicate contract for %s", key))
			}
			cs.Funcs[key] = cur
			curLoop = nil
		default:
			if cur == nil {
				return fail(i, fmt.Errorf("clause %q outside a func item", kw))
			}
			cur.Lines++
			switch kw {
			case "requires", "ensures", "invariant", "assumes", "binds":
				c, err := parseClause(rest)
				if err != nil {
					return fail(i, err)
				}
				switch kw {
				case "binds":
					c.Binding = true
					cur.Requires = append(cur.Requires, c)
				case "assumes":
					cur.Assumes = append(cur.Assumes, c)
				case "requires":
					cur.Requires = append(cur.Requires, c)
				case "ensures":
					cur.Ensures = append(cur.Ensures, c)
				case "invariant":
					if curLoop == nil {
						return fail(i, fmt.Errorf("invariant outside loop"))
					}
					curLoop.Invariants = append(curLoop.Invariants, c)
				}
			case "ghost":
				j := strings.Index(rest, ":=")
				if j < 0 {
					return fail(i, fmt.Errorf("ghost needs :="))
				}
				e, err := ParseSpecExpr(strings.TrimSpace(rest[j+2:]))
				if err != nil {
					return fail(i, err)
				}
				cur.Ghosts = append(cur.Ghosts, GhostLet{strings.TrimSpace(rest[:j]), e})
			case "inlined-loop":
				r := strings.TrimSpace(strings.TrimSuffix(strings.TrimSpace(rest), ":"))
				n, err := strconv.Atoi(r)
				if err != nil {
					return fail(i, fmt.Errorf("bad inlined-loop ordinal %q", r))
				}
				curLoop = &LoopContract{}
				if cur.InlinedLoops == nil {
					cur.InlinedLoops = map[int]*LoopContract{}
				}
				cur.InlinedLoops[n] = curLoop
			case "loop":
				r := strings.TrimSpace(strings.TrimSuffix(strings.TrimSpace(rest), ":"))
				n, err := strconv.Atoi(r)
				if err != nil {
					return fail(i, fmt.Errorf("bad loop ordinal %q", r))
				}
				curLoop = &LoopContract{}
				cur.Loops[n] = curLoop
			case "decreases":
				e, err := ParseSpecExpr(rest)
				if err != nil {
					return fail(i, err)
				}
				if curLoop != nil {
					curLoop.Decreases = e
				}
			case "witness":
				// witness f(x) := e   (inside a loop block: used for callee preconditions in the body)
				k := strings.Index(rest, ":=")
				if k < 0 || curLoop == nil {
					return fail(i, fmt.Errorf("witness clause needs := and a loop block"))
				}
				wname, wparam := strings.TrimSpace(rest[:k]), ""
				if o := strings.Index(wname, "("); o > 0 && strings.HasSuffix(wname, ")") {
					wparam = strings.TrimSpace(wname[o+1 : len(wname)-1])
					wname = strings.TrimSpace(wname[:o])
				}
				we, err := ParseSpecExpr(strings.TrimSpace(rest[k+2:]))
				if err != nil {
					return fail(i, err)
				}
				if curLoop.Wit == nil {
					curLoop.Wit = map[string]*SExpr{}
					curLoop.WitParam = map[string]string{}
				}
				curLoop.Wit[wname] = we
				curLoop.WitParam[wname] = wparam
			case "nopanic":
				cur.NoPanic = true
			case "pure":
				cur.Pure = true
			case "inline":
				cur.Inline = true
			case "traced":
				cur.Traced = true
			case "expand":
				for _, k := range splitTop(rest, ',') {
					if k = strings.Trim(strings.TrimSpace(k), "\""); k != "" {
						cur.Expand = append(cur.Expand, k)
					}
				}
			case "at-call":
				r := strings.TrimSpace(rest)
				if !strings.HasPrefix(r, "\"") || strings.Index(r[1:], "\"") < 0 {
					return fail(i, fmt.Errorf("at-call needs a quoted function key"))
				}
				k := strings.Index(r[1:], "\"") + 1
				body := strings.TrimSpace(r[k+1:])
				if strings.HasPrefix(body, "let ") {
					j := strings.Index(body, ":=")
					if j < 0 {
						return fail(i, fmt.Errorf("at-call let needs :="))
					}
					e, err := ParseSpecExpr(strings.TrimSpace(body[j+2:]))
					if err != nil {
						return fail(i, err)
					}
					cur.AtCalls = append(cur.AtCalls, AtCall{Key: r[1:k], Let: strings.TrimSpace(body[4:j]), Clause: Clause{Expr: e, Text: body}})
					break
				}
				c, err := parseClause(body)
				if err != nil {
					return fail(i, err)
				}
				cur.AtCalls = append(cur.AtCalls, AtCall{Key: r[1:k], Clause: c})
			case "keeps":
				cur.Keeps = append(cur.Keeps, strings.Fields(rest)...)
			case "fresh":
				cur.Fresh = true
			case "callbacks-modify-nothing":
				cur.PureCallbacks = true
			case "copyof":
				cur.CopyOf = rest
			case "modifies":
				cur.ModifiesSet = true
				for _, m := range splitTop(rest, ',') {
					if m = strings.TrimSpace(m); m != "" {
						cur.Modifies = append(cur.Modifies, m)
					}
				}
			case "property":
				cur.Props = append(cur.Props, strings.Fields(rest)...)
			}
		}
	}
	return nil
}

func isBareIdent(s string) bool {
	if s == "" {
		return false
	}
	for _, c := range s {
		if !(c == '_' || c == '-' || (c >= 'a' && c <= 'z') || (c >= 'A' && c <= 'Z') || (c >= '0' && c <= '9')) {
			return false
		}
	}
	return true
}

func splitTop(s string, sep byte) []string {
	var out []string
	depth, start := 0, 0
	for i := 0; i < len(s); i++ {
		switch s[i] {
		case '(', '[', '{':
			depth++
		case ')', ']', '}':
			depth--
		default:
			if s[i] == sep && depth == 0 {
				out = append(out, s[start:i])
				start = i + 1
			}
		}
	}
	out = append(out, s[start:])
	return out
}
