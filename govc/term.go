package main

// SMT term AST with light simplification at construction time.

import (
	"fmt"
	"sort"
	"strconv"
	"strings"
)

type Sort string

const (
	SInt  Sort = "Int"
	SBool Sort = "Bool"
	SStr  Sort = "Str"
	SAny  Sort = "Any"
	SFlt  Sort = "Flt"
	SSlc  Sort = "Slc"
)

func ArrS(idx, elem Sort) Sort { return Sort("(Array " + string(idx) + " " + string(elem) + ")") }

// elemOfArr returns the element sort of an (Array I E) sort.
func elemOfArr(s Sort) (Sort, Sort) {
	str := string(s)
	if !strings.HasPrefix(str, "(Array ") {
		panic("not an array sort: " + str)
	}
	inner := str[len("(Array ") : len(str)-1]
	// split into two sexprs
	depth := 0
	for i, c := range inner {
		switch c {
		case '(':
			depth++
		case ')':
			depth--
		case ' ':
			if depth == 0 {
				return Sort(inner[:i]), Sort(inner[i+1:])
			}
		}
	}
	panic("bad array sort " + str)
}

type Term struct {
	Op    string
	Args  []*Term
	S     Sort
	Bound []*Term   // for forall/exists
	Pats  [][]*Term // optional patterns
	size  int
}

func (t *Term) IsAtom() bool { return len(t.Args) == 0 && t.Bound == nil }

func mk(op string, s Sort, args ...*Term) *Term {
	sz := 1
	for _, a := range args {
		sz += a.size
		if sz > 1<<30 {
			sz = 1 << 30
		}
	}
	return &Term{Op: op, Args: args, S: s, size: sz}
}

func Atom(name string, s Sort) *Term { return &Term{Op: name, S: s, size: 1} }

var (
	True  = Atom("true", SBool)
	False = Atom("false", SBool)
)

func IntLit(i int64) *Term {
	if i < 0 {
		return mk("-", SInt, Atom(strconv.FormatInt(-i, 10), SInt))
	}
	return Atom(strconv.FormatInt(i, 10), SInt)
}

func (t *Term) intVal() (int64, bool) {
	if t.S != SInt {
		return 0, false
	}
	if t.IsAtom() {
		if v, err := strconv.ParseInt(t.Op, 10, 64); err == nil {
			return v, true
		}
		return 0, false
	}
	if t.Op == "-" && len(t.Args) == 1 {
		if v, ok := t.Args[0].intVal(); ok {
			return -v, true
		}
	}
	return 0, false
}

func BoolLit(b bool) *Term {
	if b {
		return True
	}
	return False
}

func termEq(a, b *Term) bool {
	if a == b {
		return true
	}
	if a.Op != b.Op || len(a.Args) != len(b.Args) || a.S != b.S || len(a.Bound) != 0 || len(b.Bound) != 0 {
		return false
	}
	if a.size != b.size || a.size > 200 {
		return false
	}
	for i := range a.Args {
		if !termEq(a.Args[i], b.Args[i]) {
			return false
		}
	}
	return true
}

func Not(a *Term) *Term {
	switch {
	case a == True || a.Op == "true":
		return False
	case a == False || a.Op == "false":
		return True
	case a.Op == "not":
		return a.Args[0]
	}
	return mk("not", SBool, a)
}

func And(xs ...*Term) *Term {
	var out []*Term
	for _, x := range xs {
		if x == nil || x.Op == "true" {
			continue
		}
		if x.Op == "false" {
			return False
		}
		if x.Op == "and" {
			out = append(out, x.Args...)
			continue
		}
		out = append(out, x)
	}
	if len(out) == 0 {
		return True
	}
	if len(out) == 1 {
		return out[0]
	}
	return mk("and", SBool, out...)
}

func Or(xs ...*Term) *Term {
	var out []*Term
	for _, x := range xs {
		if x == nil || x.Op == "false" {
			continue
		}
		if x.Op == "true" {
			return True
		}
		if x.Op == "or" {
			out = append(out, x.Args...)
			continue
		}
		out = append(out, x)
	}
	if len(out) == 0 {
		return False
	}
	if len(out) == 1 {
		return out[0]
	}
	return mk("or", SBool, out...)
}

func Implies(a, b *Term) *Term {
	if a.Op == "true" {
		return b
	}
	if a.Op == "false" || b.Op == "true" {
		return True
	}
	if b.Op == "false" {
		return Not(a)
	}
	return mk("=>", SBool, a, b)
}

func Ite(c, a, b *Term) *Term {
	if c.Op == "true" {
		return a
	}
	if c.Op == "false" {
		return b
	}
	if termEq(a, b) {
		return a
	}
	if a.S != b.S {
		panic(fmt.Sprintf("ite sort mismatch %s vs %s: %s / %s", a.S, b.S, a, b))
	}
	if a.S == SBool {
		if a.Op == "true" && b.Op == "false" {
			return c
		}
		if a.Op == "false" && b.Op == "true" {
			return Not(c)
		}
	}
	return mk("ite", a.S, c, a, b)
}

func Eq(a, b *Term) *Term {
	if a.S != b.S {
		panic(fmt.Sprintf("eq sort mismatch %s vs %s: %s = %s", a.S, b.S, a, b))
	}
	if termEq(a, b) {
		return True
	}
	if av, ok := a.intVal(); ok {
		if bv, ok := b.intVal(); ok {
			return BoolLit(av == bv)
		}
	}
	if a.S == SBool {
		if a.Op == "true" {
			return b
		}
		if b.Op == "true" {
			return a
		}
		if a.Op == "false" {
			return Not(b)
		}
		if b.Op == "false" {
			return Not(a)
		}
	}
	if a.S == SStr && a.IsAtom() && b.IsAtom() && strings.HasPrefix(a.Op, "str!") && strings.HasPrefix(b.Op, "str!") {
		return BoolLit(a.Op == b.Op)
	}
	return mk("=", SBool, a, b)
}

func Neq(a, b *Term) *Term { return Not(Eq(a, b)) }

func Add(a, b *Term) *Term {
	av, aok := a.intVal()
	bv, bok := b.intVal()
	if aok && bok {
		return IntLit(av + bv)
	}
	if aok && av == 0 {
		return b
	}
	if bok && bv == 0 {
		return a
	}
	// (x + c1) + c2
	if bok && a.Op == "+" && len(a.Args) == 2 {
		if cv, ok := a.Args[1].intVal(); ok {
			return Add(a.Args[0], IntLit(cv+bv))
		}
	}
	if bok && bv < 0 {
		return mk("-", SInt, a, IntLit(-bv))
	}
	return mk("+", SInt, a, b)
}

func Sub(a, b *Term) *Term {
	av, aok := a.intVal()
	bv, bok := b.intVal()
	if aok && bok {
		return IntLit(av - bv)
	}
	if bok {
		return Add(a, IntLit(-bv))
	}
	_ = av
	return mk("-", SInt, a, b)
}

func Mul(a, b *Term) *Term {
	av, aok := a.intVal()
	bv, bok := b.intVal()
	if aok && bok {
		return IntLit(av * bv)
	}
	return mk("*", SInt, a, b)
}

func cmpOp(op string, a, b *Term) *Term {
	av, aok := a.intVal()
	bv, bok := b.intVal()
	if aok && bok {
		switch op {
		case "<":
			return BoolLit(av < bv)
		case "<=":
			return BoolLit(av <= bv)
		case ">":
			return BoolLit(av > bv)
		case ">=":
			return BoolLit(av >= bv)
		}
	}
	return mk(op, SBool, a, b)
}

func Lt(a, b *Term) *Term { return cmpOp("<", a, b) }
func Le(a, b *Term) *Term { return cmpOp("<=", a, b) }
func Gt(a, b *Term) *Term { return cmpOp(">", a, b) }
func Ge(a, b *Term) *Term { return cmpOp(">=", a, b) }

func Select(arr, idx *Term) *Term {
	_, es := elemOfArr(arr.S)
	// select over store with syntactically equal index
	if arr.Op == "store" && termEq(arr.Args[1], idx) {
		return arr.Args[2]
	}
	// select over store with provably distinct literal ints
	if arr.Op == "store" {
		if iv, ok := idx.intVal(); ok {
			if jv, ok := arr.Args[1].intVal(); ok && iv != jv {
				return Select(arr.Args[0], idx)
			}
		}
	}
	if arr.Op == "const-array" {
		return arr.Args[0]
	}
	return mk("select", es, arr, idx)
}

func Store(arr, idx, v *Term) *Term {
	is, es := elemOfArr(arr.S)
	if idx.S != is || v.S != es {
		panic(fmt.Sprintf("store sort mismatch: arr %s idx %s val %s", arr.S, idx.S, v.S))
	}
	return mk("store", arr.S, arr, idx, v)
}

// ConstArr is ((as const S) v).
func ConstArr(s Sort, v *Term) *Term { return mk("const-array", s, v) }

func App(fn string, s Sort, args ...*Term) *Term { return mk(fn, s, args...) }

func Forall(bound []*Term, body *Term, pats ...[]*Term) *Term {
	if body.Op == "true" {
		return True
	}
	if len(bound) == 0 {
		return body
	}
	var okPats [][]*Term
	for _, p := range pats {
		ok := len(p) > 0
		for _, x := range p {
			if !patternOK(x) || !isTriggerOp(x) {
				ok = false
			}
		}
		if ok {
			okPats = append(okPats, p)
		}
	}
	if len(okPats) == 0 && len(pats) > 0 {
		okPats = inferPatterns(bound, body)
	}
	pats = okPats
	t := mk("forall", SBool, body)
	t.Bound = bound
	t.Pats = pats
	t.size += 3
	return t
}

func Exists(bound []*Term, body *Term) *Term {
	if len(bound) == 0 {
		return body
	}
	t := mk("exists", SBool, body)
	t.Bound = bound
	t.size += 3
	return t
}

func (t *Term) String() string {
	var sb strings.Builder
	t.write(&sb)
	return sb.String()
}

func (t *Term) write(sb *strings.Builder) {
	if t.Bound != nil {
		sb.WriteString("(" + t.Op + " (")
		for _, b := range t.Bound {
			sb.WriteString("(" + b.Op + " " + string(b.S) + ")")
		}
		sb.WriteString(") ")
		if len(t.Pats) > 0 {
			sb.WriteString("(! ")
			t.Args[0].write(sb)
			for _, p := range t.Pats {
				sb.WriteString(" :pattern (")
				for i, pt := range p {
					if i > 0 {
						sb.WriteString(" ")
					}
					pt.write(sb)
				}
				sb.WriteString(")")
			}
			sb.WriteString(")")
		} else {
			t.Args[0].write(sb)
		}
		sb.WriteString(")")
		return
	}
	if len(t.Args) == 0 {
		sb.WriteString(t.Op)
		return
	}
	if t.Op == "const-array" {
		sb.WriteString("((as const " + string(t.S) + ") ")
		t.Args[0].write(sb)
		sb.WriteString(")")
		return
	}
	sb.WriteString("(" + t.Op)
	for _, a := range t.Args {
		sb.WriteString(" ")
		a.write(sb)
	}
	sb.WriteString(")")
}

// subst replaces atoms by name.
func subst(t *Term, m map[string]*Term) *Term {
	if len(m) == 0 {
		return t
	}
	if t.IsAtom() {
		if r, ok := m[t.Op]; ok {
			return r
		}
		return t
	}
	if t.Bound != nil {
		m2 := m
		for _, b := range t.Bound {
			if _, ok := m[b.Op]; ok {
				if &m2 == &m || len(m2) == len(m) {
					m2 = map[string]*Term{}
					for k, v := range m {
						m2[k] = v
					}
				}
				delete(m2, b.Op)
			}
		}
		nb := subst(t.Args[0], m2)
		var np [][]*Term
		for _, p := range t.Pats {
			var q []*Term
			for _, x := range p {
				q = append(q, subst(x, m2))
			}
			np = append(np, q)
		}
		if t.Op == "forall" {
			return Forall(t.Bound, nb, np...)
		}
		return Exists(t.Bound, nb)
	}
	changed := false
	args := make([]*Term, len(t.Args))
	for i, a := range t.Args {
		args[i] = subst(a, m)
		if args[i] != a {
			changed = true
		}
	}
	if !changed {
		return t
	}
	return rebuild(t, args)
}

// rebuild re-applies the smart constructors for op over new args.
func rebuild(t *Term, args []*Term) *Term {
	switch t.Op {
	case "and":
		return And(args...)
	case "or":
		return Or(args...)
	case "not":
		return Not(args[0])
	case "=>":
		return Implies(args[0], args[1])
	case "ite":
		return Ite(args[0], args[1], args[2])
	case "=":
		return Eq(args[0], args[1])
	case "+":
		if len(args) == 2 {
			return Add(args[0], args[1])
		}
	case "-":
		if len(args) == 2 {
			return Sub(args[0], args[1])
		}
	case "<", "<=", ">", ">=":
		return cmpOp(t.Op, args[0], args[1])
	case "select":
		return Select(args[0], args[1])
	case "store":
		return Store(args[0], args[1], args[2])
	}
	return mk(t.Op, t.S, args...)
}

// collectSubterms gathers candidate trigger terms: select/app terms containing bound vars.
func freeAtoms(t *Term, into map[string]bool) {
	if t.IsAtom() {
		into[t.Op] = true
		return
	}
	for _, a := range t.Args {
		freeAtoms(a, into)
	}
	// bound variables of nested quantifiers are included too; callers filter by name
}

func containsAtom(t *Term, name string) bool {
	if t.IsAtom() {
		return t.Op == name
	}
	for _, a := range t.Args {
		if containsAtom(a, name) {
			return true
		}
	}
	return false
}

// inferPatterns chooses triggers for a quantified body: minimal select/UF applications that
// contain bound variables; greedily builds a multi-pattern covering all bound vars.
func inferPatterns(bound []*Term, body *Term) [][]*Term {
	type cand struct {
		t    *Term
		vars map[string]bool
	}
	var cands []cand
	isBound := map[string]bool{}
	for _, b := range bound {
		isBound[b.Op] = true
	}
	var walk func(t *Term) map[string]bool
	seen := map[string]bool{}
	nested := 0
	walk = func(t *Term) map[string]bool {
		vs := map[string]bool{}
		if t.IsAtom() {
			if isBound[t.Op] {
				vs[t.Op] = true
			}
			return vs
		}
		if t.Bound != nil {
			// terms under a nested quantifier may mention its bound variables: no candidates there
			nested++
			inner := walk(t.Args[0])
			nested--
			for _, b := range t.Bound {
				delete(inner, b.Op)
			}
			return inner
		}
		childHasCand := false
		for _, a := range t.Args {
			for v := range walk(a) {
				vs[v] = true
			}
		}
		_ = childHasCand
		if len(vs) > 0 && nested == 0 && isTriggerOp(t) && patternOK(t) {
			s := t.String()
			if !seen[s] {
				seen[s] = true
				cands = append(cands, cand{t, vs})
			}
		}
		return vs
	}
	walk(body)
	if len(cands) == 0 {
		return nil
	}
	// prefer smaller terms
	sort.SliceStable(cands, func(i, j int) bool { return cands[i].t.size < cands[j].t.size })
	// drop candidates that strictly contain another candidate with the same var set (keep minimal)
	var minimal []cand
	for i, c := range cands {
		dominated := false
		for j, d := range cands {
			if i == j || d.t.size >= c.t.size || len(d.vars) != len(c.vars) {
				continue
			}
			if strings.Contains(c.t.String(), d.t.String()) {
				dominated = true
				break
			}
		}
		if !dominated {
			minimal = append(minimal, c)
		}
	}
	cands = minimal
	var pats [][]*Term
	// single-term patterns covering all vars
	for _, c := range cands {
		if len(c.vars) == len(bound) {
			pats = append(pats, []*Term{c.t})
		}
	}
	if len(pats) > 0 {
		if len(pats) > 4 {
			pats = pats[:4]
		}
		return pats
	}
	// greedy multi-pattern
	covered := map[string]bool{}
	var multi []*Term
	for len(covered) < len(bound) {
		best := -1
		bestGain := 0
		for i, c := range cands {
			gain := 0
			for v := range c.vars {
				if !covered[v] {
					gain++
				}
			}
			if gain > bestGain {
				best, bestGain = i, gain
			}
		}
		if best < 0 {
			return nil
		}
		multi = append(multi, cands[best].t)
		for v := range cands[best].vars {
			covered[v] = true
		}
	}
	return [][]*Term{multi}
}

func isTriggerOp(t *Term) bool {
	switch t.Op {
	case "select":
		return true
	case "and", "or", "not", "=>", "ite", "=", "+", "-", "*", "<", "<=", ">", ">=", "store", "forall", "exists", "const-array", "div", "mod", "distinct", "slot":
		return false
	}
	if strings.HasPrefix(t.Op, "mk!") {
		return false
	}
	return len(t.Args) > 0
}

// patternOK: solvers reject patterns containing logical connectives or ite.
func patternOK(t *Term) bool {
	switch t.Op {
	case "and", "or", "not", "=>", "ite", "=", "<", "<=", ">", ">=", "forall", "exists", "distinct":
		return false
	}
	for _, a := range t.Args {
		if !patternOK(a) {
			return false
		}
	}
	return true
}

// Slot is the absolute position of logical index i in a slice with offset off. It is kept as an
// uninterpreted application (defined by an axiom) so that quantifier patterns never contain "+".
func Slot(off, i *Term) *Term {
	if v, ok := off.intVal(); ok && v == 0 {
		return i
	}
	return mk("slot", SInt, off, i)
}
