package main

// C06 - structural obligations on the per-language transformation chains. Each Language.CompilerPasses()
// returns a literal list of passes; the list is read off the SSA form of that function (order of the
// stores into the backing array). The obligations are the chain-level half of the property: the rewrite
// that establishes each normal form a language relies on is in that language's chain, after the passes
// that can create the construct it removes, and nothing that could re-introduce the construct follows.
// Discharged by the generator (boolean goal), not by an SMT query.

import (
	"go/types"
	"sort"
	"strings"

	"golang.org/x/tools/go/ssa"
)

// chainOf: the pass type names in the order the literal lists them; unconditional reports that every
// pass of the list is put there on every path to a return (the store's block dominates every returning
// block): a pass appended under a configuration-dependent branch is not part of "the chain".
func chainOf(fn *ssa.Function) (chain []string, unconditional bool) {
	type ent struct {
		idx  int64
		name string
	}
	var ents []ent
	var rets []*ssa.BasicBlock
	for _, b := range fn.Blocks {
		if len(b.Instrs) > 0 {
			if _, isRet := b.Instrs[len(b.Instrs)-1].(*ssa.Return); isRet {
				rets = append(rets, b)
			}
		}
	}
	unconditional = true
	for _, b := range fn.Blocks {
		for _, in := range b.Instrs {
			st, ok := in.(*ssa.Store)
			if !ok {
				continue
			}
			ia, ok := st.Addr.(*ssa.IndexAddr)
			if !ok {
				continue
			}
			c, ok := ia.Index.(*ssa.Const)
			if !ok {
				continue
			}
			mi, ok := st.Val.(*ssa.MakeInterface)
			if !ok {
				continue
			}
			t := mi.X.Type()
			if p, isPtr := t.(*types.Pointer); isPtr {
				t = p.Elem()
			}
			nt, ok := t.(*types.Named)
			if !ok {
				continue
			}
			ents = append(ents, ent{c.Int64(), nt.Obj().Name()})
			for _, r := range rets {
				if !b.Dominates(r) {
					unconditional = false
				}
			}
		}
	}
	sort.Slice(ents, func(i, j int) bool { return ents[i].idx < ents[j].idx })
	var out []string
	for _, e := range ents {
		out = append(out, e.name)
	}
	return out, unconditional
}

func indexOf(xs []string, x string) int {
	for i, v := range xs {
		if v == x {
			return i
		}
	}
	return -1
}

// passes that can create an anonymous enum / a union / an anonymous struct (read off the pass
// implementations; stated in the evidence as an assumption of this check)
var createsEnum = []string{"DisjunctionOfConstantsToEnum", "ConstantToEnum"}
var mayCreateUnion = []string{"DisjunctionOfConstantsToEnum", "FlattenDisjunctions", "DisjunctionInferMapping", "DisjunctionOfAnonymousStructsToExplicit", "UndiscriminatedDisjunctionToAny", "InlineObjectsWithTypes", "AnonymousStructsToNamed", "NotRequiredFieldAsNullableType", "DisjunctionWithNullToOptional", "AnonymousEnumToExplicitType", "PrefixEnumValues", "SanitizeEnumMemberNames", "RenameNumericEnumValues"}

func (e *Engine) chainResult() *FuncResult {
	ctx := newCtx(e, e.anyFunction())
	ctx.fnKey = "c06-chains"
	res := &FuncResult{Key: "c06-chains", Ctx: ctx}
	langs := []string{"golang", "java", "php", "python", "typescript"}
	chains := map[string][]string{}
	for _, l := range langs {
		key := "jennies/" + l + ".(*Language).CompilerPasses"
		fn := e.fnByKey[key]
		var ch []string
		uncond := false
		if fn != nil {
			ch, uncond = chainOf(fn)
		}
		chains[l] = ch
		ctx.addOblig("chain", l+":chain-is-a-literal-list", BoolLit(len(ch) > 0), "internal/jennies/"+l+"/jennies.go")
		ctx.addOblig("chain", l+":every-pass-of-the-chain-runs-whatever-the-configuration", BoolLit(uncond), "internal/jennies/"+l+"/jennies.go")
	}
	need := func(l, pass, why string) int {
		i := indexOf(chains[l], pass)
		ctx.addOblig("chain", l+":contains:"+pass+":"+why, BoolLit(i >= 0), "internal/jennies/"+l+"/jennies.go")
		return i
	}
	after := func(l, pass string, i int, creators []string, why string) {
		ok := i >= 0
		for _, c := range creators {
			if j := indexOf(chains[l], c); j >= 0 && j > i {
				ok = false
			}
		}
		ctx.addOblig("chain", l+":"+pass+":runs-after-the-passes-that-create-"+why, BoolLit(ok), "internal/jennies/"+l+"/jennies.go")
	}
	// no union remains (Go, Java)
	for _, l := range []string{"golang", "java"} {
		i := need(l, "DisjunctionToType", "no-union-remains")
		ok := i >= 0
		if ok {
			for _, p := range chains[l][i+1:] {
				if p != "RemoveIntersections" {
					ok = false
				}
			}
		}
		ctx.addOblig("chain", l+":DisjunctionToType:nothing-that-can-create-a-union-follows", BoolLit(ok), "internal/jennies/"+l+"/jennies.go")
	}
	// every enum is a named object (Go, Java, PHP)
	for _, l := range []string{"golang", "java", "php"} {
		i := need(l, "AnonymousEnumToExplicitType", "enums-are-named-objects")
		after(l, "AnonymousEnumToExplicitType", i, createsEnum, "enums")
	}
	// structs named, non-required nullable, no T|null (Go, Java, PHP, Python)
	for _, l := range []string{"golang", "java", "php", "python"} {
		need(l, "AnonymousStructsToNamed", "structs-are-named-objects")
		need(l, "NotRequiredFieldAsNullableType", "non-required-fields-are-nullable")
		need(l, "DisjunctionWithNullToOptional", "no-T-or-null-union")
	}
	// enum member names
	if i := need("golang", "PrefixEnumValues", "enum-members-prefixed"); true {
		after("golang", "PrefixEnumValues", i, append([]string{"AnonymousEnumToExplicitType"}, createsEnum...), "named-enums")
	}
	if i := need("php", "SanitizeEnumMemberNames", "enum-members-sanitised"); true {
		after("php", "SanitizeEnumMemberNames", i, append([]string{"AnonymousEnumToExplicitType"}, createsEnum...), "named-enums")
	}
	for _, l := range []string{"typescript", "python"} {
		i := need(l, "RenameNumericEnumValues", "enum-members-not-numeric")
		after(l, "RenameNumericEnumValues", i, createsEnum, "enums")
	}
	// recursion: DisjunctionToType turns the branches of a union into fields of a generated struct; a
	// branch can hold a union itself, so it has to go through visitor.VisitType before it becomes a field
	ctx.addOblig("recursion", "compiler.(*DisjunctionToType).processDisjunction:branches-are-visited-before-they-become-fields",
		BoolLit(e.fieldsComeFromVisitType("compiler.(*DisjunctionToType).processDisjunction")), "internal/ast/compiler/disjunctions.go")
	var ls []string
	for _, l := range langs {
		ls = append(ls, l+": "+strings.Join(chains[l], " > "))
	}
	ctx.trusted["chains read from the SSA of Language.CompilerPasses(): "+strings.Join(ls, " | ")] = true
	ctx.trusted["which passes can create enums / unions is read off their implementations by hand: "+strings.Join(createsEnum, ", ")+" create enums; only RemoveIntersections may follow DisjunctionToType"] = true
	_ = mayCreateUnion
	res.Obligs = ctx.obligs
	return res
}


// fieldsComeFromVisitType: every ast.NewStructField call of the function receives, as the field type, a
// value that was produced by (*Visitor).VisitType (possibly copied through a local and updated field-wise).
func (e *Engine) fieldsComeFromVisitType(key string) bool {
	fn := e.fnByKey[key]
	if fn == nil {
		return false
	}
	var fromVisit func(v ssa.Value, depth int) bool
	fromVisit = func(v ssa.Value, depth int) bool {
		if depth > 6 {
			return false
		}
		switch x := v.(type) {
		case *ssa.Extract:
			return fromVisit(x.Tuple, depth+1)
		case *ssa.Call:
			if sc := x.Call.StaticCallee(); sc != nil {
				return funcKey(sc) == "compiler.(*Visitor).VisitType"
			}
			return false
		case *ssa.UnOp: // load from a local: every whole-value store into it must come from VisitType
			al, ok := x.X.(*ssa.Alloc)
			if !ok {
				return false
			}
			stores := 0
			for _, r := range *al.Referrers() {
				if st, isStore := r.(*ssa.Store); isStore && st.Addr == ssa.Value(al) {
					stores++
					if !fromVisit(st.Val, depth+1) {
						return false
					}
				}
			}
			return stores > 0
		case *ssa.Phi:
			for _, ed := range x.Edges {
				if !fromVisit(ed, depth+1) {
					return false
				}
			}
			return true
		}
		return false
	}
	calls := 0
	for _, b := range fn.Blocks {
		for _, in := range b.Instrs {
			c, ok := in.(*ssa.Call)
			if !ok {
				continue
			}
			sc := c.Call.StaticCallee()
			if sc == nil || funcKey(sc) != "ast.NewStructField" || len(c.Call.Args) < 2 {
				continue
			}
			calls++
			if !fromVisit(c.Call.Args[1], 0) {
				return false
			}
		}
	}
	return calls > 0
}
