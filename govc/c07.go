package main

// C07 - structural (def-use) obligations over go/ssa: the schemas shared between the per-language
// iterations of Pipeline.Run only ever reach a transformation chain through Passes.Process, and
// Passes.Process hands its passes a deep copy (whose independence is C18's claim), never the
// original. These are obligations generated from the SSA form of the two functions; they are
// discharged by the generator (the goal is a boolean literal), not by an SMT query.

import (
	"fmt"
	"go/types"
	"sort"
	"strings"

	"golang.org/x/tools/go/ssa"
)

// paramUses: the instructions that use parameter p, looking through DebugRefs.
func paramUses(p *ssa.Parameter) []ssa.Instruction {
	var out []ssa.Instruction
	for _, r := range *p.Referrers() {
		if _, isDbg := r.(*ssa.DebugRef); isDbg {
			continue
		}
		out = append(out, r)
	}
	return out
}

func findParam(fn *ssa.Function, name string) *ssa.Parameter {
	for _, p := range fn.Params {
		if p.Name() == name {
			return p
		}
	}
	return nil
}

func calleeName(in ssa.Instruction) string {
	ci, ok := in.(ssa.CallInstruction)
	if !ok {
		return ""
	}
	if sc := ci.Common().StaticCallee(); sc != nil {
		return funcKey(sc)
	}
	return ""
}

func (e *Engine) flowResult() *FuncResult {
	ctx := newCtx(e, e.anyFunction())
	ctx.fnKey = "c07-flow"
	res := &FuncResult{Key: "c07-flow", Ctx: ctx}
	// F1: Passes.Process uses its parameter only as the receiver of Schemas.DeepCopy
	ok1 := false
	if fn := e.fnByKey["compiler.Passes.Process"]; fn != nil {
		if p := findParam(fn, "schemas"); p != nil {
			uses := paramUses(p)
			ok1 = len(uses) == 1 && calleeName(uses[0]) == "ast.Schemas.DeepCopy"
			// and every pass receives the value that DeepCopy returned or a previous pass returned
			if ok1 {
				for _, b := range fn.Blocks {
					for _, in := range b.Instrs {
						ci, isCall := in.(*ssa.Call)
						if !isCall || !ci.Call.IsInvoke() || ci.Call.Method.Name() != "Process" {
							continue
						}
						if len(ci.Call.Args) != 1 || !derivedFromCopy(ci.Call.Args[0], map[ssa.Value]bool{}) {
							ok1 = false
						}
					}
				}
			}
		}
	}
	ctx.addOblig("flow", "compiler.Passes.Process:passes-only-see-a-deep-copy", BoolLit(ok1), "internal/ast/compiler/compiler.go")
	// F2: ContextForLanguage hands the shared schemas to Passes.Process only
	ok2 := false
	if fn := e.fnByKey["codegen.(*Pipeline).ContextForLanguage"]; fn != nil {
		if p := findParam(fn, "schemas"); p != nil {
			ok2 = sharedOnlyReachesProcess(fn, p)
		}
	}
	ctx.addOblig("flow", "codegen.(*Pipeline).ContextForLanguage:shared-schemas-only-reach-Passes.Process", BoolLit(ok2), "internal/codegen/run.go")
	// F3: Pipeline.Run passes the schemas it loaded to ContextForLanguage only
	ok3 := false
	if fn := e.fnByKey["codegen.(*Pipeline).Run"]; fn != nil {
		ok3 = loadedSchemasOnlyReachContext(fn)
	}
	ctx.addOblig("flow", "codegen.(*Pipeline).Run:loaded-schemas-only-reach-ContextForLanguage", BoolLit(ok3), "internal/codegen/run.go")
	// F4: Schemas.Consolidate merges every input into the very schema it returns for the package: the
	// receiver of each Schema.Merge call is a pointer that is also appended to the returned list (merging
	// into a by-value copy of a schema would lose what Merge writes to the receiver: entry point, entry
	// point type)
	ok4 := false
	if fn := e.fnByKey["ast.Schemas.Consolidate"]; fn != nil {
		n := 0
		ok4 = true
		for _, b := range fn.Blocks {
			for _, in := range b.Instrs {
				ci, isCall := in.(*ssa.Call)
				if !isCall {
					continue
				}
				sc := ci.Call.StaticCallee()
				if sc == nil || funcKey(sc) != "ast.(*Schema).Merge" || len(ci.Call.Args) < 1 {
					continue
				}
				n++
				if !appendedToResult(ci.Call.Args[0]) {
					ok4 = false
				}
			}
		}
		ok4 = ok4 && n > 0
	}
	ctx.addOblig("flow", "ast.Schemas.Consolidate:inputs-are-merged-into-the-schema-that-is-returned", BoolLit(ok4), "internal/ast/schema.go")
	res.Obligs = ctx.obligs
	return res
}

// appendedToResult: the pointer value is stored into the variadic argument array of an append call.
func appendedToResult(v ssa.Value) bool {
	refs := v.Referrers()
	if refs == nil {
		return false
	}
	for _, r := range *refs {
		st, ok := r.(*ssa.Store)
		if !ok || st.Val != v {
			continue
		}
		ia, ok := st.Addr.(*ssa.IndexAddr)
		if !ok {
			continue
		}
		al, ok := ia.X.(*ssa.Alloc)
		if !ok || al.Referrers() == nil {
			continue
		}
		for _, r2 := range *al.Referrers() {
			sl, ok := r2.(*ssa.Slice)
			if !ok || sl.Referrers() == nil {
				continue
			}
			for _, r3 := range *sl.Referrers() {
				if c, ok := r3.(*ssa.Call); ok {
					if bi, isB := c.Call.Value.(*ssa.Builtin); isB && bi.Name() == "append" {
						return true
					}
				}
			}
		}
	}
	return false
}

// derivedFromCopy: v is the result of Schemas.DeepCopy, of a previous Pass.Process, or a phi/extract of those.
func derivedFromCopy(v ssa.Value, seen map[ssa.Value]bool) bool {
	if seen[v] {
		return true
	}
	seen[v] = true
	switch x := v.(type) {
	case *ssa.Call:
		if sc := x.Call.StaticCallee(); sc != nil {
			return funcKey(sc) == "ast.Schemas.DeepCopy"
		}
		return x.Call.IsInvoke() && x.Call.Method.Name() == "Process"
	case *ssa.Extract:
		return derivedFromCopy(x.Tuple, seen)
	case *ssa.Phi:
		for _, e := range x.Edges {
			if !derivedFromCopy(e, seen) {
				return false
			}
		}
		return true
	case *ssa.ChangeType:
		return derivedFromCopy(x.X, seen)
	case *ssa.Convert:
		return derivedFromCopy(x.X, seen)
	}
	return false
}

// sharedOnlyReachesProcess: the parameter is stored into one field of a local struct; in the entry
// block that field is read once - as the argument of Passes.Process - and then overwritten with the
// result, before any other instruction can read it.
func sharedOnlyReachesProcess(fn *ssa.Function, p *ssa.Parameter) bool {
	uses := paramUses(p)
	if len(uses) != 1 {
		return false
	}
	st, ok := uses[0].(*ssa.Store)
	if !ok || st.Val != ssa.Value(p) {
		return false
	}
	fa, ok := st.Addr.(*ssa.FieldAddr)
	if !ok {
		return false
	}
	al, ok := fa.X.(*ssa.Alloc)
	if !ok {
		return false
	}
	b := st.Block()
	if b != fn.Blocks[0] {
		return false
	}
	started, reads, overwritten := false, 0, false
	for _, in := range b.Instrs {
		if in == ssa.Instruction(st) {
			started = true
			continue
		}
		if !started || overwritten {
			continue
		}
		switch x := in.(type) {
		case *ssa.UnOp:
			if ld, isFA := x.X.(*ssa.FieldAddr); isFA && ld.X == ssa.Value(al) && ld.Field == fa.Field {
				reads++
				// the loaded value must be used by the Process call only
				for _, r := range *x.Referrers() {
					if _, isDbg := r.(*ssa.DebugRef); isDbg {
						continue
					}
					if calleeName(r) != "compiler.Passes.Process" {
						return false
					}
				}
			} else if x.X == ssa.Value(al) {
				return false // the whole struct is read while it still holds the shared schemas
			}
		case *ssa.Store:
			if ld, isFA := x.Addr.(*ssa.FieldAddr); isFA && ld.X == ssa.Value(al) && ld.Field == fa.Field {
				if !derivedFromProcess(x.Val) {
					return false
				}
				overwritten = true
			}
		case ssa.CallInstruction:
			// the struct's address must not escape before the overwrite
			for _, a := range x.Common().Args {
				if a == ssa.Value(al) {
					return false
				}
			}
		case *ssa.Return, *ssa.If, *ssa.Jump:
			_ = x
		}
	}
	return reads == 1 && overwritten
}

func derivedFromProcess(v ssa.Value) bool {
	switch x := v.(type) {
	case *ssa.Extract:
		return derivedFromProcess(x.Tuple)
	case *ssa.Call:
		if sc := x.Call.StaticCallee(); sc != nil {
			return funcKey(sc) == "compiler.Passes.Process"
		}
	}
	return false
}

// loadedSchemasOnlyReachContext: the value returned by LoadSchemas is used only as an argument of
// ContextForLanguage (apart from the error check on the other tuple component).
func loadedSchemasOnlyReachContext(fn *ssa.Function) bool {
	found := false
	for _, b := range fn.Blocks {
		for _, in := range b.Instrs {
			c, ok := in.(*ssa.Call)
			if !ok || calleeName(c) != "codegen.(*Pipeline).LoadSchemas" {
				continue
			}
			found = true
			for _, r := range *c.Referrers() {
				if _, isDbg := r.(*ssa.DebugRef); isDbg {
					continue
				}
				ex, isEx := r.(*ssa.Extract)
				if !isEx {
					return false
				}
				if _, isSchemas := ex.Type().Underlying().(*types.Slice); !isSchemas {
					continue
				}
				for _, u := range *ex.Referrers() {
					if _, isDbg := u.(*ssa.DebugRef); isDbg {
						continue
					}
					if calleeName(u) != "codegen.(*Pipeline).ContextForLanguage" {
						return false
					}
				}
			}
		}
	}
	return found
}

// mergeFlowResult (C17): in builder.mergeBuilderInto every value stored into the Path field of a copied
// ast.Assignment is the result of underPath.Append(<the old path>) - ast.Path.Append is under contract
// (fresh array, receiver ++ suffix) - and there are such stores (for constructor constants and for
// option assignments). Building the path any other way (append(underPath, ...) on the shared prefix)
// fails the obligation.
func (e *Engine) mergeFlowResult() *FuncResult {
	ctx := newCtx(e, e.anyFunction())
	ctx.fnKey = "c17-merge-flow"
	res := &FuncResult{Key: "c17-merge-flow", Ctx: ctx}
	ok := false
	if fn := e.fnByKey["builder.mergeBuilderInto"]; fn != nil {
		root := findParam(fn, "underPath")
		n := 0
		ok = root != nil
		for _, b := range fn.Blocks {
			for _, in := range b.Instrs {
				st, isSt := in.(*ssa.Store)
				if !isSt {
					continue
				}
				fa, isFA := st.Addr.(*ssa.FieldAddr)
				if !isFA {
					continue
				}
				pt, isP := fa.X.Type().Underlying().(*types.Pointer)
				if !isP {
					continue
				}
				nt, isN := pt.Elem().(*types.Named)
				if !isN || nt.Obj().Name() != "Assignment" {
					continue
				}
				if nt.Underlying().(*types.Struct).Field(fa.Field).Name() != "Path" {
					continue
				}
				n++
				call, isCall := st.Val.(*ssa.Call)
				if !isCall || call.Call.StaticCallee() == nil || funcKey(call.Call.StaticCallee()) != "ast.Path.Append" || len(call.Call.Args) != 2 || call.Call.Args[0] != ssa.Value(root) {
					ok = false
				}
			}
		}
		// every ast.Assignment appended by this function is one of those locals: no call may produce assignments
		for _, b := range fn.Blocks {
			for _, in := range b.Instrs {
				if call, isCall := in.(*ssa.Call); isCall {
					if sc := call.Call.StaticCallee(); sc != nil && e.inModule(sc) {
						if strings.HasSuffix(funcKey(sc), ").DeepCopy") {
							continue // a copy of the source's assignment: its Path is overwritten by the store checked above
						}
						rs := sc.Signature.Results()
						for i := 0; i < rs.Len(); i++ {
							if nt, isN := rs.At(i).Type().(*types.Named); isN && nt.Obj().Name() == "Assignment" {
								ok = false
							}
						}
					}
				}
			}
		}
		ok = ok && n >= 2
	}
	ctx.addOblig("flow", "builder.mergeBuilderInto:copied-assignments-are-re-rooted-with-Path.Append", BoolLit(ok), "internal/veneers/builder/rules.go")
	res.Obligs = ctx.obligs
	return res
}

// yamlCarriedResult (C15): the YAML description of a transformation is turned into the pass by an
// AsCompilerPass method; every field of the YAML struct must be read by that method (a field that is
// parsed and then ignored makes the transformation silently do something else than configured).
// Structural obligation over go/ssa, one per (type, field).
func (e *Engine) yamlCarriedResult(methods map[string]bool, tag string) *FuncResult {
	ctx := newCtx(e, e.anyFunction())
	ctx.fnKey = tag + "-yaml-carried"
	res := &FuncResult{Key: tag + "-yaml-carried", Ctx: ctx}
	var keys []string
	for k := range e.fnByKey {
		keys = append(keys, k)
	}
	sort.Strings(keys)
	n := 0
	for _, k := range keys {
		fn := e.fnByKey[k]
		if !strings.HasPrefix(k, "yaml.") || !methods[fn.Name()] || fn.Signature.Recv() == nil || len(fn.Params) == 0 || fn.Synthetic != "" {
			continue
		}
		rt := fn.Signature.Recv().Type()
		isPtr := false
		if p, ok := rt.Underlying().(*types.Pointer); ok {
			rt = p.Elem()
			isPtr = true
		}
		st, ok := rt.Underlying().(*types.Struct)
		nt, isNamed := rt.(*types.Named)
		if !ok || !isNamed || nt.Obj().Name() == "CompilerPass" || nt.Obj().Name() == "BuilderRule" || nt.Obj().Name() == "OptionRule" || nt.Obj().Name() == "BuilderSelector" || nt.Obj().Name() == "OptionSelector" {
			continue
		}
		recv := fn.Params[0]
		roots := map[ssa.Value]bool{}
		whole := false
		for _, r := range *recv.Referrers() {
			switch x := r.(type) {
			case *ssa.Store:
				if x.Val == ssa.Value(recv) {
					roots[x.Addr] = true
				}
			case *ssa.DebugRef, *ssa.Field, *ssa.FieldAddr:
			default:
				whole = true // the receiver is used as a whole (passed on, converted, compared)
			}
		}
		read := map[int]bool{}
		for _, b := range fn.Blocks {
			for _, in := range b.Instrs {
				switch x := in.(type) {
				case *ssa.Field:
					if x.X == ssa.Value(recv) {
						read[x.Field] = true
					}
				case *ssa.FieldAddr:
					if (isPtr && x.X == ssa.Value(recv)) || roots[x.X] {
						read[x.Field] = true
					}
				case *ssa.UnOp:
					if roots[x.X] {
						// the local copy of the receiver is loaded as a whole
						for _, r := range *x.Referrers() {
							if _, isDbg := r.(*ssa.DebugRef); !isDbg {
								whole = true
							}
						}
					}
				}
			}
		}
		for i := 0; i < st.NumFields(); i++ {
			n++
			ctx.addOblig("flow", "yaml."+nt.Obj().Name()+"."+fn.Name()+":field-"+st.Field(i).Name()+"-is-carried-into-the-pass", BoolLit(whole || read[i]), "internal/yaml")
		}
	}
	ctx.addOblig("flow", "yaml:conversion-methods-enumerated", BoolLit(n > 0), fmt.Sprint(n))
	res.Obligs = ctx.obligs
	return res
}

// siblingCopyResult (C17): disjunction_as_options turns one option into one option per branch. The
// siblings must not share mutable structure (a later rule applied to one of them - rename_arguments,
// array_to_append ... write through Value.Argument - would change the others: "options not selected by a
// rule are unchanged"). Structural obligation over go/ssa: the option appended in each iteration is built
// from a deep copy taken IN that iteration - the loop that appends to the result contains its own call of
// Option.DeepCopy (whose independence is C18's claim) - and no such copy is hoisted out of the loop.
func (e *Engine) siblingCopyResult() *FuncResult {
	ctx := newCtx(e, e.anyFunction())
	ctx.fnKey = "c17-sibling-copies"
	res := &FuncResult{Key: "c17-sibling-copies", Ctx: ctx}
	for _, key := range []string{"option.disjunctionAsOptions", "option.disjunctionStructAsOptions"} {
		ok := false
		if fn := e.fnByKey[key]; fn != nil {
			f := &Frame{ctx: ctx, fn: fn, tmap: TMap{}, vals: map[ssa.Value]Val{}}
			f.analyzeLoops()
			isCopy := func(in ssa.Instruction) bool {
				c, isCall := in.(*ssa.Call)
				if !isCall {
					return false
				}
				sc := c.Call.StaticCallee()
				return sc != nil && (funcKey(sc) == "ast.(*Option).DeepCopy" || funcKey(sc) == "ast.Option.DeepCopy")
			}
			copiesOutside := 0
			inAnyLoop := map[*ssa.BasicBlock]bool{}
			for _, li := range f.loops {
				for b := range li.body {
					inAnyLoop[b] = true
				}
			}
			for _, b := range fn.Blocks {
				for _, in := range b.Instrs {
					if isCopy(in) && !inAnyLoop[b] {
						copiesOutside++
					}
				}
			}
			appendLoops, good := 0, 0
			for _, li := range f.loops {
				appends, copies := false, false
				for b := range li.body {
					for _, in := range b.Instrs {
						if c, isCall := in.(*ssa.Call); isCall {
							if bi, isB := c.Call.Value.(*ssa.Builtin); isB && bi.Name() == "append" && len(c.Call.Args) > 0 {
								if sl, isSl := c.Call.Args[0].Type().Underlying().(*types.Slice); isSl {
									if nt, isN := sl.Elem().(*types.Named); isN && nt.Obj().Name() == "Option" {
										appends = true
									}
								}
							}
						}
						if isCopy(in) {
							copies = true
						}
					}
				}
				if appends {
					appendLoops++
					if copies {
						good++
					}
				}
			}
			ok = appendLoops > 0 && good == appendLoops && copiesOutside == 0
		}
		ctx.addOblig("flow", key+":every-sibling-option-is-built-from-its-own-deep-copy", BoolLit(ok), "internal/veneers/option/actions.go")
	}
	res.Obligs = ctx.obligs
	return res
}

// ruleGlueResult (C17): the glue that applies option rules replaces the options of EVERY builder by the list
// it just built, whatever that list contains - an empty list is how a builder whose options were all omitted
// is dismissed. Structural obligation over go/ssa: in applyOptionRules there is a store into
// builders[i].Options inside the loop over the builders, and it lies on every path around that loop (its
// block dominates every back edge of the innermost loop that contains it): no `continue` skips it.
func (e *Engine) ruleGlueResult() *FuncResult {
	ctx := newCtx(e, e.anyFunction())
	ctx.fnKey = "c17-rule-glue"
	res := &FuncResult{Key: "c17-rule-glue", Ctx: ctx}
	key := "rewrite.(*Rewriter).applyOptionRules"
	fn := e.fnByKey[key]
	ok := false
	if fn != nil {
		f := &Frame{ctx: ctx, fn: fn, tmap: TMap{}, vals: map[ssa.Value]Val{}}
		f.analyzeLoops()
		for _, b := range fn.Blocks {
			for _, in := range b.Instrs {
				st, isSt := in.(*ssa.Store)
				if !isSt {
					continue
				}
				fa, isFA := st.Addr.(*ssa.FieldAddr)
				if !isFA {
					continue
				}
				pt, isP := fa.X.Type().Underlying().(*types.Pointer)
				if !isP {
					continue
				}
				nt, isN := pt.Elem().(*types.Named)
				if !isN || nt.Obj().Name() != "Builder" || nt.Underlying().(*types.Struct).Field(fa.Field).Name() != "Options" {
					continue
				}
				if _, isIA := fa.X.(*ssa.IndexAddr); !isIA {
					continue
				}
				// innermost loop containing the store
				var inner *loopInfo
				for _, li := range f.loops {
					if li.body[b] && (inner == nil || len(li.body) < len(inner.body)) {
						inner = li
					}
				}
				if inner == nil {
					continue
				}
				all := len(inner.backs) > 0
				for _, back := range inner.backs {
					if !(b == back || b.Dominates(back)) {
						all = false
					}
				}
				if all {
					ok = true
				}
			}
		}
	}
	ctx.addOblig("flow", key+":every-builder-gets-the-options-the-rule-produced", BoolLit(ok), "internal/veneers/rewrite/rewrite.go")
	res.Obligs = ctx.obligs
	return res
}

// composedConstructorResult (C17): every builder compose_builders creates appends its own plugin-type
// assignment to its constructor; it must start from its own copy of the source builder's constructor (a
// struct copy shares the Args / Assignments backing arrays, and with spare capacity two composed builders
// write the same slot). Structural obligation: every value stored into the Constructor field of a builder
// literal in composeBuilderForType is the result of (*Constructor).DeepCopy.
func (e *Engine) composedConstructorResult() *FuncResult {
	ctx := newCtx(e, e.anyFunction())
	ctx.fnKey = "c17-composed-constructor"
	res := &FuncResult{Key: "c17-composed-constructor", Ctx: ctx}
	key := "builder.composeBuilderForType"
	fn := e.fnByKey[key]
	n, ok := 0, fn != nil
	if fn != nil {
		for _, b := range fn.Blocks {
			for _, in := range b.Instrs {
				st, isSt := in.(*ssa.Store)
				if !isSt {
					continue
				}
				fa, isFA := st.Addr.(*ssa.FieldAddr)
				if !isFA {
					continue
				}
				pt, isP := fa.X.Type().Underlying().(*types.Pointer)
				if !isP {
					continue
				}
				nt, isN := pt.Elem().(*types.Named)
				if !isN || nt.Obj().Name() != "Builder" || nt.Underlying().(*types.Struct).Field(fa.Field).Name() != "Constructor" {
					continue
				}
				n++
				c, isCall := st.Val.(*ssa.Call)
				if !isCall || c.Call.StaticCallee() == nil || funcKey(c.Call.StaticCallee()) != "ast.(*Constructor).DeepCopy" {
					ok = false
				}
			}
		}
	}
	ctx.addOblig("flow", key+":the-composed-builder-starts-from-its-own-copy-of-the-source-constructor", BoolLit(ok && n > 0), "internal/veneers/builder/rules.go")
	res.Obligs = ctx.obligs
	return res
}

// mergedCopiesResult (C17): merge_into and compose_builders create builders out of the options of other
// builders that stay in the list; what they hand over must be copies (option rules rewrite arguments and
// assignments in place). Structural obligations over go/ssa: in mergeBuilderInto every whole-value store
// into the locals newOpt / newAssignment is the result of a DeepCopy call; in composeBuilderForType the range
// variable over the source builder's options is never read as a whole value (only its fields, or as the
// receiver of DeepCopy).
func (e *Engine) mergedCopiesResult() *FuncResult {
	ctx := newCtx(e, e.anyFunction())
	ctx.fnKey = "c17-merged-copies"
	res := &FuncResult{Key: "c17-merged-copies", Ctx: ctx}
	isDeepCopy := func(v ssa.Value) bool {
		c, ok := v.(*ssa.Call)
		if !ok {
			return false
		}
		sc := c.Call.StaticCallee()
		return sc != nil && strings.HasSuffix(funcKey(sc), ").DeepCopy")
	}
	if fn := e.fnByKey["builder.mergeBuilderInto"]; fn != nil {
		for _, name := range []string{"newOpt", "newAssignment"} {
			n, ok := 0, true
			for _, b := range fn.Blocks {
				for _, in := range b.Instrs {
					al, isAl := in.(*ssa.Alloc)
					if !isAl || al.Comment != name {
						continue
					}
					for _, r := range *al.Referrers() {
						if st, isSt := r.(*ssa.Store); isSt && st.Addr == ssa.Value(al) {
							n++
							if !isDeepCopy(st.Val) {
								ok = false
							}
						}
					}
				}
			}
			ctx.addOblig("flow", "builder.mergeBuilderInto:"+name+"-is-a-deep-copy-of-the-source's", BoolLit(ok && n > 0), "internal/veneers/builder/rules.go")
		}
	} else {
		ctx.addOblig("flow", "builder.mergeBuilderInto:exists", BoolLit(false), "")
	}
	if fn := e.fnByKey["builder.composeBuilderForType"]; fn != nil {
		found, ok := false, true
		for _, b := range fn.Blocks {
			for _, in := range b.Instrs {
				al, isAl := in.(*ssa.Alloc)
				if !isAl || al.Comment != "panelOpt" {
					continue
				}
				found = true
				for _, r := range *al.Referrers() {
					if ld, isLd := r.(*ssa.UnOp); isLd && ld.X == ssa.Value(al) {
						ok = false // the whole option read by value
					}
				}
			}
		}
		if !found {
			// the range variable does not escape into a cell: every use of the element value must be a field read
			ok = false
		}
		ctx.addOblig("flow", "builder.composeBuilderForType:source-options-are-handed-over-as-deep-copies", BoolLit(ok), "internal/veneers/builder/rules.go")
	}
	res.Obligs = ctx.obligs
	return res
}
