package main

// C20: configuration files are decoded strictly and match the published schemas.
//
//  1. typestate: every yaml Decoder that decodes has had KnownFields(true) called on it first
//     (ghost state on the decoder, assumed contracts for yaml.v3) - obligations on the three loaders;
//  2. the rule unions are total: an entry with no recognised member is an error, and every member
//     of a union struct has a branch (a contract derived from the struct declaration);
//  3. the type graph reachable from the three decode roots has no custom unmarshaler and its yaml key
//     sets equal the property sets of schemas/*.json ($defs entry per struct, additionalProperties false).

import (
	"encoding/json"
	"fmt"
	"go/token"
	"go/types"
	"os"
	"path/filepath"
	"reflect"
	"sort"
	"strings"

	"golang.org/x/tools/go/ssa"
)

const yamlStrictComp = "$yamlStrict"

func init() {
	externModels["gopkg.in/yaml.v3.NewDecoder"] = func(f *Frame, st *State, r *Term, fn *ssa.Function, args []Val, pos token.Pos) Val {
		trust(f, "yaml.v3: NewDecoder returns a fresh decoder that is not strict")
		d := f.newRef(st, "yamlDecoder")
		S := f.ctx.comp(st, yamlStrictComp, ArrS(SInt, SBool))
		st.heap[yamlStrictComp] = f.ctx.name("strict", Store(S, d, False))
		return d
	}
	externModels["gopkg.in/yaml.v3.(*Decoder).KnownFields"] = func(f *Frame, st *State, r *Term, fn *ssa.Function, args []Val, pos token.Pos) Val {
		trust(f, "yaml.v3: (*Decoder).KnownFields(b) sets the decoder's strictness to b; a strict Decode rejects every mapping key that matches no field of the target struct, at any depth")
		d := f.asTerm(args[0])
		S := f.ctx.comp(st, yamlStrictComp, ArrS(SInt, SBool))
		st.heap[yamlStrictComp] = f.ctx.name("strict", Store(S, d, f.asTerm(args[1])))
		return TupleVal{}
	}
	externModels["gopkg.in/yaml.v3.(*Decoder).Decode"] = func(f *Frame, st *State, r *Term, fn *ssa.Function, args []Val, pos token.Pos) Val {
		d := f.asTerm(args[0])
		S := f.ctx.comp(st, yamlStrictComp, ArrS(SInt, SBool))
		f.check("pre", "->yaml.(*Decoder).Decode:strict", r, Select(S, d), pos)
		var ats []types.Type
		ats = append(ats, fn.Signature.Recv().Type())
		for i := 0; i < fn.Signature.Params().Len(); i++ {
			ats = append(ats, fn.Signature.Params().At(i).Type())
		}
		return f.confinedExtern(st, r, fn, args, ats)
	}
	externModels["gopkg.in/yaml.v3.Unmarshal"] = func(f *Frame, st *State, r *Term, fn *ssa.Function, args []Val, pos token.Pos) Val {
		// yaml.Unmarshal is never strict
		f.check("pre", "->yaml.Unmarshal:strict", r, False, pos)
		f.havocTop(st)
		return f.freshResults(st, fn.Signature, "ext")
	}
}

// unionObligations: for a method whose receiver is a "union struct" (every field a pointer or an
// inlined union), the empty union must be rejected with an error and every member needs a branch.
func (f *Frame) unionObligations(exit *State, results []SVal) []namedTerm {
	fn := f.fn
	var out []namedTerm
	recv := fn.Params[0]
	rt := f.subst(recv.Type())
	var a *Term
	vt := rt
	if p, ok := rt.Underlying().(*types.Pointer); ok {
		vt = p.Elem()
		a = f.load(f.entry, f.asLoc(f.get(recv), rt))
	} else {
		a = f.asTerm(f.get(recv))
	}
	st, ok := vt.Underlying().(*types.Struct)
	if !ok || len(results) == 0 {
		return nil
	}
	si := f.structInfo(vt)
	var allNil []*Term
	for i := 0; i < st.NumFields(); i++ {
		switch st.Field(i).Type().Underlying().(type) {
		case *types.Pointer, *types.Map, *types.Slice:
			v := si.Get(a, i)
			if v.S == SSlc {
				v = SlcBase(v)
			}
			allNil = append(allNil, Eq(v, IntLit(0)))
		}
	}
	errRes := f.asTerm(results[len(results)-1].V)
	if errRes.S == SAny {
		out = append(out, namedTerm{"union|empty-rejected", Implies(And(allNil...), Neq(errRes, Atom("anynil", SAny)))})
	}
	// every member is looked at: there is a FieldAddr/Field on it somewhere in the body
	read := map[int]bool{}
	for _, b := range fn.Blocks {
		for _, in := range b.Instrs {
			switch x := in.(type) {
			case *ssa.FieldAddr:
				if types.Identical(derefT(x.X.Type()), vt) {
					read[x.Field] = true
				}
			case *ssa.Field:
				if types.Identical(x.X.Type(), vt) {
					read[x.Field] = true
				}
			}
		}
	}
	for i := 0; i < st.NumFields(); i++ {
		out = append(out, namedTerm{"union|member:" + st.Field(i).Name() + ":has-branch", BoolLit(read[i])})
	}
	return out
}

// ---- type graph against the published schemas ---------------------------------------------------------

type cfgRoot struct {
	pkg, typ, schema string
}

var cfgRoots = []cfgRoot{
	{"github.com/grafana/cog/internal/yaml", "Compiler", "compiler_passes.json"},
	{"github.com/grafana/cog/internal/yaml", "Veneers", "veneers.json"},
	{"github.com/grafana/cog/internal/codegen", "Pipeline", "pipeline.json"},
}

func upperCamel(s string) string {
	if s == "" {
		return s
	}
	// tools.UpperCamelCase on identifiers without separators only upper-cases the first letter
	parts := strings.FieldsFunc(s, func(r rune) bool { return r == '_' || r == '-' || r == ' ' })
	var sb strings.Builder
	for _, p := range parts {
		sb.WriteString(strings.ToUpper(p[:1]) + p[1:])
	}
	return sb.String()
}

func defName(n *types.Named) string {
	name := n.Obj().Name()
	if n.Obj().Pkg() != nil {
		parts := strings.Split(n.Obj().Pkg().Path(), "/")
		name = upperCamel(parts[len(parts)-1]) + upperCamel(name)
	}
	return name
}

// yamlKeys: the mapping keys yaml.v3 accepts for a struct (tags, lower-cased names, inlined structs).
func yamlKeys(st *types.Struct, open *[]string, path string) (keys []string, inlined []*types.Named) {
	for i := 0; i < st.NumFields(); i++ {
		fld := st.Field(i)
		if !fld.Exported() {
			continue
		}
		tag := reflect.StructTag(st.Tag(i)).Get("yaml")
		name, opts, _ := strings.Cut(tag, ",")
		if name == "-" {
			continue
		}
		if strings.Contains(","+opts+",", ",inline,") {
			t := fld.Type()
			if p, ok := t.(*types.Pointer); ok {
				t = p.Elem()
			}
			if n, ok := types.Unalias(t).(*types.Named); ok {
				if ist, ok := n.Underlying().(*types.Struct); ok {
					k2, in2 := yamlKeys(ist, open, path+"."+fld.Name())
					keys = append(keys, k2...)
					inlined = append(inlined, n)
					inlined = append(inlined, in2...)
					continue
				}
			}
			*open = append(*open, path+"."+fld.Name()+" (inline map)")
			continue
		}
		if name == "" {
			name = strings.ToLower(fld.Name())
		}
		keys = append(keys, name)
	}
	return
}

func (e *Engine) findNamed(pkgPath, name string) *types.Named {
	var found *types.Named
	var visit func(p *types.Package, seen map[string]bool)
	visit = func(p *types.Package, seen map[string]bool) {
		if p == nil || seen[p.Path()] || found != nil {
			return
		}
		seen[p.Path()] = true
		if p.Path() == pkgPath {
			if obj := p.Scope().Lookup(name); obj != nil {
				if n, ok := obj.Type().(*types.Named); ok {
					found = n
				}
			}
			return
		}
		for _, imp := range p.Imports() {
			visit(imp, seen)
		}
	}
	seen := map[string]bool{}
	for _, p := range e.pkgs {
		visit(p.Types, seen)
	}
	return found
}

// typeGraphResult builds the obligations of part 3 as a synthetic FuncResult.
func (e *Engine) typeGraphResult() *FuncResult {
	fnAny := e.anyFunction()
	ctx := newCtx(e, fnAny)
	ctx.fnKey = "typegraph"
	res := &FuncResult{Key: "typegraph", Ctx: ctx}
	add := func(name string, goal *Term, note string) {
		o := ctx.addOblig("typegraph", name, goal, note)
		_ = o
	}
	setEq := func(goKeys, schemaKeys []string) *Term {
		// forall x. (x in go) <=> (x in schema), over string literals
		x := Atom("x!q0", SStr)
		in := func(keys []string) *Term {
			var alts []*Term
			for _, k := range keys {
				alts = append(alts, Eq(x, ctx.strLit(k)))
			}
			return Or(alts...)
		}
		return Forall([]*Term{x}, Eq(in(goKeys), in(schemaKeys)))
	}
	for _, root := range cfgRoots {
		rn := e.findNamed(root.pkg, root.typ)
		if rn == nil {
			add(root.typ+":root-type-exists", False, root.pkg)
			continue
		}
		data, err := os.ReadFile(filepath.Join(e.repo, "schemas", root.schema))
		if err != nil {
			add(root.typ+":schema-file-exists", False, err.Error())
			continue
		}
		var doc struct {
			Ref  string                     `json:"$ref"`
			Defs map[string]json.RawMessage `json:"$defs"`
		}
		if err := json.Unmarshal(data, &doc); err != nil {
			add(root.typ+":schema-file-parses", False, err.Error())
			continue
		}
		add(root.typ+":root-ref", BoolLit(doc.Ref == "#/$defs/"+defName(rn)), root.schema)
		// walk the type graph
		seen := map[string]*types.Named{}
		var open []string
		var walk func(t types.Type, path string)
		walk = func(t types.Type, path string) {
			switch u := types.Unalias(t).(type) {
			case *types.Pointer:
				walk(u.Elem(), path)
			case *types.Slice:
				walk(u.Elem(), path+"[]")
			case *types.Array:
				walk(u.Elem(), path+"[]")
			case *types.Map:
				walk(u.Elem(), path+"{}")
			case *types.Interface:
				open = append(open, path+" (any)")
			case *types.Named:
				if _, ok := u.Underlying().(*types.Struct); ok {
					dn := defName(u)
					if _, dup := seen[dn]; dup {
						return
					}
					seen[dn] = u
					st := u.Underlying().(*types.Struct)
					for i := 0; i < st.NumFields(); i++ {
						tagName, _, _ := strings.Cut(reflect.StructTag(st.Tag(i)).Get("yaml"), ",")
						if st.Field(i).Exported() && tagName != "-" {
							walk(st.Field(i).Type(), path+"."+st.Field(i).Name())
						}
					}
					return
				}
				walk(u.Underlying(), path)
			}
		}
		walk(rn, root.typ)
		names := make([]string, 0, len(seen))
		for n := range seen {
			names = append(names, n)
		}
		sort.Strings(names)
		inlinedOnly := map[string]bool{}
		for _, dn := range names {
			n := seen[dn]
			st := n.Underlying().(*types.Struct)
			// custom unmarshalers would bypass strict decoding
			custom := false
			for _, m := range []string{"UnmarshalYAML", "UnmarshalText", "UnmarshalJSON"} {
				if obj, _, _ := types.LookupFieldOrMethod(types.NewPointer(n), true, n.Obj().Pkg(), m); obj != nil {
					if _, isFunc := obj.(*types.Func); isFunc {
						custom = true
					}
				}
			}
			add(root.typ+":"+dn+":no-custom-unmarshaler", BoolLit(!custom), n.String())
			keys, inl := yamlKeys(st, &open, dn)
			for _, in := range inl {
				inlinedOnly[defName(in)] = true
			}
			raw, ok := doc.Defs[dn]
			if !ok {
				if inlinedOnly[dn] {
					continue
				}
				add(root.typ+":"+dn+":has-def", False, "no $defs entry in "+root.schema)
				continue
			}
			var def struct {
				Properties           map[string]json.RawMessage `json:"properties"`
				AdditionalProperties *json.RawMessage           `json:"additionalProperties"`
			}
			json.Unmarshal(raw, &def)
			var sk []string
			for k := range def.Properties {
				sk = append(sk, k)
			}
			sort.Strings(sk)
			sort.Strings(keys)
			add(root.typ+":"+dn+":keys", setEq(keys, sk), fmt.Sprintf("go=%v schema=%v", keys, sk))
			closed := def.AdditionalProperties != nil && strings.TrimSpace(string(*def.AdditionalProperties)) == "false"
			add(root.typ+":"+dn+":closed", BoolLit(closed), "additionalProperties must be false")
		}
		// conversely: every $defs entry that describes an object corresponds to a reachable struct
		var dnames []string
		for dn := range doc.Defs {
			dnames = append(dnames, dn)
		}
		sort.Strings(dnames)
		for _, dn := range dnames {
			var def struct {
				Properties map[string]json.RawMessage `json:"properties"`
				Type       string                     `json:"type"`
			}
			json.Unmarshal(doc.Defs[dn], &def)
			if def.Properties == nil {
				continue
			}
			_, ok := seen[dn]
			add(root.typ+":"+dn+":def-has-type", BoolLit(ok), "a $defs object without a reachable Go struct")
		}
		ctx.trusted[fmt.Sprintf("open positions of %s (any key or value accepted there by design): %s", root.typ, strings.Join(dedup(open), ", "))] = true
	}
	res.Obligs = ctx.obligs
	return res
}

func dedup(xs []string) []string {
	sort.Strings(xs)
	var out []string
	for i, x := range xs {
		if i == 0 || xs[i-1] != x {
			out = append(out, x)
		}
	}
	if len(out) > 40 {
		out = append(out[:40], "...")
	}
	return out
}

func (e *Engine) anyFunction() *ssa.Function {
	keys := make([]string, 0, len(e.fnByKey))
	for k := range e.fnByKey {
		keys = append(keys, k)
	}
	sort.Strings(keys)
	return e.fnByKey[keys[0]]
}

// decoderSitesResult: the three loaders are the only places in the module that create a yaml decoder
// or call yaml.Unmarshal (finite scan over the loaded SSA).
func (e *Engine) decoderSitesResult(allowed map[string]bool) *FuncResult {
	ctx := newCtx(e, e.anyFunction())
	ctx.fnKey = "yaml-sites"
	res := &FuncResult{Key: "yaml-sites", Ctx: ctx}
	var keys []string
	for k := range e.fnByKey {
		keys = append(keys, k)
	}
	sort.Strings(keys)
	found := map[string]bool{}
	for _, k := range keys {
		fn := e.fnByKey[k]
		if !e.inModule(fn) {
			continue
		}
		for _, b := range fn.Blocks {
			for _, in := range b.Instrs {
				ci, ok := in.(ssa.CallInstruction)
				if !ok {
					continue
				}
				sc := ci.Common().StaticCallee()
				if sc == nil {
					continue
				}
				switch fullName(sc) {
				case "gopkg.in/yaml.v3.NewDecoder", "gopkg.in/yaml.v3.Unmarshal":
					root := fn
					for root.Parent() != nil {
						root = root.Parent()
					}
					rk := funcKey(root)
					found[rk] = true
					ctx.addOblig("typegraph", "yaml-decoder-site:"+rk+":is-a-strict-loader", BoolLit(allowed[rk]), "")
				}
			}
		}
	}
	for k := range allowed {
		ctx.addOblig("typegraph", "yaml-decoder-site:"+k+":still-decodes", BoolLit(found[k]), "")
	}
	res.Obligs = ctx.obligs
	return res
}
