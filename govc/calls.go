package main

// Calls: builtins, models of external functions, contract application (modular), inlining of small
// helpers and statically known closures, and havoc for everything else.

import (
	"fmt"
	"go/token"
	"go/types"
	"sort"
	"strings"

	"golang.org/x/tools/go/ssa"
)

const maxInlineDepth = 6

func (f *Frame) call(st *State, r *Term, site ssa.Instruction, cc *ssa.CallCommon) Val {
	pos := site.Pos()
	if b, ok := cc.Value.(*ssa.Builtin); ok {
		return f.builtin(st, r, b.Name(), cc, pos)
	}
	var args []Val
	for _, a := range cc.Args {
		args = append(args, f.get(a))
	}
	if cc.IsInvoke() {
		recv := f.asTerm(f.get(cc.Value))
		return f.invoke(st, r, cc, recv, args, pos)
	}
	var callee *ssa.Function
	var bindings []Val
	switch v := f.get(cc.Value).(type) {
	case ClosureVal:
		callee, bindings = v.Fn, v.Bindings
	case *Term:
		if cv, ok := f.ctx.closures[v.Op]; ok {
			callee, bindings = cv.Fn, cv.Bindings
		} else {
			f.check("safe", "nil-func-call:"+describe(cc.Value), r, Neq(v, IntLit(0)), pos)
			if f.top().relational {
				if out, ok := f.deterministicCall(st, v, cc, args); ok {
					return out
				}
			}
			f.fieldFnCallPre(st, r, cc, args, pos)
			f.atCallChecksDynamic(st, r, cc, args, pos)
			if ftKey, nt := functypeKey(f.subst(cc.Value.Type())); nt != nil {
				if ct := f.ctx.eng.contracts.Funcs[ftKey]; ct != nil {
					return f.traceDynamic(r, v, args, f.functypeCall(st, r, ct, nt, v, args, pos))
				}
			}
			if _, isParam := cc.Value.(*ssa.Parameter); isParam && f.contract != nil && f.contract.PureCallbacks {
				f.ctx.trusted["precondition of "+f.ctx.fnKey+": the callback does not write memory that existed before the call, terminates and does not panic"] = true
				na := f.ctx.fresh("alloc", SInt)
				f.ctx.assume(Ge(na, st.alloc))
				st.alloc = na
				return f.traceDynamic(r, v, args, f.freshResults(st, cc.Signature(), "cb"))
			}
			return f.traceDynamic(r, v, args, f.havocCall(st, r, nil, cc.Signature(), args, "dynamic call "+describe(cc.Value)))
		}
	default:
		panic(unsupported(fmt.Sprintf("call through %T", v)))
	}
	return f.callFn(st, r, callee, bindings, args, pos)
}

// callFn: a call to a known function. For `traced` callees a ghost counter of completed calls is kept
// (it survives the callee's unknown effects): ncalls("key") in specifications.
func (f *Frame) callFn(st *State, r *Term, callee *ssa.Function, bindings []Val, args []Val, pos token.Pos) Val {
	target := callee
	if o := callee.Origin(); o != nil {
		target = o
	}
	ct := f.ctx.eng.contractFor(target)
	f.atCallChecks(st, r, target, bindings, args, pos)
	if ct == nil || !ct.Traced {
		return f.callFn0(st, r, callee, bindings, args, pos)
	}
	name := "$ncalls!" + funcKey(target)
	before := f.ctx.comp(st, name, SInt)
	out := f.callFn0(st, r, callee, bindings, args, pos)
	after := f.ctx.fresh("ncalls", SInt)
	f.ctx.assume(Implies(r, Ge(after, Add(before, IntLit(1)))))
	f.ctx.assume(Implies(Not(r), Eq(after, before)))
	st.heap[name] = after
	// ghost trace of completed calls: returned!key(args..., results...) is a state-independent fact; the
	// registers $lastarg/$lastres hold the arguments and results of the most recent completed call (nested
	// calls complete before the call that made them, so after this call they are this call's)
	// arguments that are not first-class terms (interior pointers such as &xs[i]) have no register; the
	// registers of the other arguments and of the results are still set, the returned! fact is skipped
	ts := make([]*Term, len(args))
	okT := true
	for i, a := range args {
		if t, isT := a.(*Term); isT {
			ts[i] = t
		} else {
			okT = false
		}
	}
	var rts []*Term
	okR := true
	switch o := out.(type) {
	case *Term:
		rts = append(rts, o)
	case TupleVal:
		for _, x := range o {
			t, isT := x.(*Term)
			if !isT {
				okR = false
				break
			}
			rts = append(rts, t)
		}
	default:
		okR = false
	}
	if okT && okR {
		f.ctx.assume(Implies(r, f.ctx.uf("returned!"+funcKey(target), SBool, append(append([]*Term{}, ts...), rts...)...)))
	}
	if okR {
		for i, t := range ts {
			if t != nil {
				f.setRegister(st, r, fmt.Sprintf("$lastarg!%s!%d", funcKey(target), i), t)
			}
		}
		for i, t := range rts {
			f.setRegister(st, r, fmt.Sprintf("$lastres!%s!%d", funcKey(target), i), t)
		}
	}
	return out
}

// traceDynamic: ghost trace of a completed call through an opaque function value:
// dynreturned(fn, args..., results...) in specifications (a state-independent fact).
func (f *Frame) traceDynamic(r *Term, fnv *Term, args []Val, out Val) Val {
	ts := []*Term{fnv}
	for _, a := range args {
		t, ok := a.(*Term)
		if !ok {
			return out
		}
		ts = append(ts, t)
	}
	switch o := out.(type) {
	case *Term:
		ts = append(ts, o)
	case TupleVal:
		for _, x := range o {
			t, ok := x.(*Term)
			if !ok {
				return out
			}
			ts = append(ts, t)
		}
	default:
		return out
	}
	f.ctx.assume(Implies(r, f.ctx.uf(dynRetName(ts), SBool, ts...)))
	return out
}

func dynRetName(ts []*Term) string {
	var sb strings.Builder
	sb.WriteString("dynreturned")
	for _, t := range ts {
		sb.WriteString("!" + trimSort(t.S))
	}
	return sb.String()
}

func (f *Frame) setRegister(st *State, r *Term, name string, v *Term) {
	f.ctx.eng.compSeen[name] = v.S
	if r.Op == "true" {
		st.heap[name] = v
		return
	}
	st.heap[name] = f.ctx.name("reg", Ite(r, v, f.ctx.comp(st, name, v.S)))
}

// atCallChecks: `at-call "key" label: expr` clauses of the function under verification, checked in the
// state in which the callee is entered.
func (f *Frame) atCallChecks(st *State, r *Term, target *ssa.Function, bindings []Val, args []Val, pos token.Pos) {
	f.atCallChecksFor(st, r, funcKey(target), target.Signature, args, pos)
}

// atCallChecksDynamic: the same for a call through a function value loaded from a struct field; the key is
// the field's, written like the key of a fieldfn contract: "pkg.fieldfn:Type.Field".
func (f *Frame) atCallChecksDynamic(st *State, r *Term, cc *ssa.CallCommon, args []Val, pos token.Pos) {
	ld, ok := cc.Value.(*ssa.UnOp)
	if !ok {
		return
	}
	fa, ok := ld.X.(*ssa.FieldAddr)
	if !ok {
		return
	}
	pt, ok := fa.X.Type().Underlying().(*types.Pointer)
	if !ok {
		return
	}
	nt, ok := types.Unalias(pt.Elem()).(*types.Named)
	if !ok || nt.Obj().Pkg() == nil {
		return
	}
	st2, ok := nt.Underlying().(*types.Struct)
	if !ok {
		return
	}
	key := pkgID(nt.Obj().Pkg()) + ".fieldfn:" + nt.Obj().Name() + "." + st2.Field(fa.Field).Name()
	f.atCallChecksFor(st, r, key, cc.Signature(), args, pos)
}

func (f *Frame) atCallChecksFor(st *State, r *Term, key string, sig *types.Signature, args []Val, pos token.Pos) {
	top := f.top()
	if top.contract == nil || len(top.contract.AtCalls) == 0 {
		return
	}
	for i, ac := range top.contract.AtCalls {
		if ac.Key != key {
			continue
		}
		se := f.specEnv(st, top.entry)
		se.positive = false
		se.wit, se.witParam = ac.Clause.Wit, ac.Clause.WitParam
		se.presite = "pre"
		n := 0
		if recv := sig.Recv(); recv != nil && len(args) > 0 {
			se.vars["$arg0"] = SVal{args[0], f.subst(recv.Type())}
			n = 1
		}
		for j := 0; j < sig.Params().Len() && n+j < len(args); j++ {
			se.vars[fmt.Sprintf("$arg%d", n+j)] = SVal{args[n+j], f.subst(sig.Params().At(j).Type())}
		}
		if li := f.innermostLoop(f.curBlock); li != nil {
			for _, in := range li.header.Instrs {
				if ph, ok := in.(*ssa.Phi); ok && ph.Comment == "rangeindex" {
					if v, ok := f.vals[ph]; ok {
						se.vars["$i"] = SVal{v, types.Typ[types.Int]}
					}
				}
			}
		}
		if ac.Let != "" {
			se.pol = 0
			v := se.eval(ac.Clause.Expr)
			t, isT := v.V.(*Term)
			if !isT {
				sfail("at-call let %s: not a first-class value", ac.Let)
			}
			top.contract.AtCalls[i].LetT, top.contract.AtCalls[i].LetS = v.T, t.S
			f.setRegister(st, r, "$let!"+ac.Let, t)
			continue
		}
		t := se.evalBool(ac.Clause.Expr)
		label := ac.Clause.Label
		if label == "" {
			label = fmt.Sprint(i)
		}
		f.check("call", shortKey(key)+":"+label, r, t, pos)
	}
}

// letRegister: the at-call let clause of the function under verification that defines $name.
func (f *Frame) letRegister(name string) *AtCall {
	top := f.top()
	if top.contract == nil {
		return nil
	}
	for i := range top.contract.AtCalls {
		if top.contract.AtCalls[i].Let == name {
			return &top.contract.AtCalls[i]
		}
	}
	return nil
}

// innermostLoop: the smallest natural loop whose body contains block b.
func (f *Frame) innermostLoop(b *ssa.BasicBlock) *loopInfo {
	var best *loopInfo
	if b == nil {
		return nil
	}
	for _, li := range f.loops {
		if li.body[b] && (best == nil || len(li.body) < len(best.body)) {
			best = li
		}
	}
	return best
}

func (f *Frame) callFn0(st *State, r *Term, callee *ssa.Function, bindings []Val, args []Val, pos token.Pos) Val {
	eng := f.ctx.eng
	// instantiation wrappers and bound-method wrappers forward to their target
	tmap := TMap{}
	target := callee
	if o := callee.Origin(); o != nil {
		target = o
		tps := o.TypeParams()
		tas := callee.TypeArgs()
		for i := 0; i < tps.Len() && i < len(tas); i++ {
			tmap[tps.At(i)] = f.subst(tas[i])
		}
	} else {
		for k, v := range f.tmapFor(callee) {
			tmap[k] = v
		}
	}
	if strings.HasSuffix(callee.Name(), "$bound") && callee.Synthetic != "" {
		// bound method closure: receiver is the single binding
		if m, ok := callee.Object().(*types.Func); ok {
			if tf := eng.prog.FuncValue(m); tf != nil {
				return f.callFn(st, r, tf, nil, append(append([]Val{}, bindings...), args...), pos)
			}
		}
	}
	if fullName(target) == "slices.Clone" && len(args) == 1 {
		if v, ok := f.modelSlicesClone(st, callee, args[0]); ok {
			return v
		}
	}
	if model, ok := externModels[fullName(target)]; ok {
		return model(f, st, r, target, args, pos)
	}
	ct := eng.contractFor(target)
	if ct != nil && ct.Traced {
		// ghost trace: on this path a call with these arguments is made
		var ts []*Term
		okArgs := true
		for _, a := range args {
			t, isT := a.(*Term)
			if !isT {
				okArgs = false
				break
			}
			ts = append(ts, t)
		}
		if okArgs {
			f.ctx.assume(Implies(r, f.ctx.uf("called!"+funcKey(target), SBool, ts...)))
		}
	}
	if ct != nil && ct.Pure && !ct.Inline && f.top().fn != target {
		// preconditions are still checked by the ordinary contract path below when there are any
		if len(ct.Requires) == 0 && len(ct.Ensures) == 0 {
			if v, ok := f.pureCall(st, r, target, tmap, ct, args, pos); ok {
				return v
			}
		}
	}
	expand := false
	if tc := f.top().contract; tc != nil && ct != nil {
		for _, k := range tc.Expand {
			if k == funcKey(target) && len(target.Blocks) > 0 && f.depth < maxInlineDepth && !f.onStack(target) {
				expand = true
			}
		}
	}
	if expand {
		return f.inlineCall(st, r, target, tmap, bindings, args)
	}
	if ct != nil && !ct.Inline && !(f.depth == 0 && false) {
		return f.contractCall(st, r, target, tmap, ct, bindings, args, pos)
	}
	if !eng.inModule(target) {
		// a method of a named basic type with scalar arguments (json.Number.Int64 ...) has nothing to write
		// through: it is a function of the receiver value
		if recv := target.Signature.Recv(); recv != nil && eng.externConfined(target) {
			if _, isBasic := recv.Type().Underlying().(*types.Basic); isBasic && target.Signature.Params().Len() == 0 {
				return f.pureExtern(st, target, args)
			}
		}
		if eng.externConfined(target) {
			var ats []types.Type
			if recv := target.Signature.Recv(); recv != nil {
				ats = append(ats, recv.Type())
			}
			ps := target.Signature.Params()
			for i := 0; i < ps.Len(); i++ {
				ats = append(ats, ps.At(i).Type())
			}
			if len(ats) == len(args) && !target.Signature.Variadic() {
				return f.confinedExtern(st, r, target, args, ats)
			}
		}
		if eng.externPure(target) {
			return f.pureExtern(st, target, args)
		}
		return f.havocCall(st, r, target, target.Signature, args, "")
	}
	if len(target.Blocks) > 0 && f.depth < maxInlineDepth && (ct != nil && ct.Inline || eng.autoInline(target, f)) && !f.onStack(target) {
		return f.inlineCall(st, r, target, tmap, bindings, args)
	}
	if f.top().relational && ct == nil && len(target.Blocks) > 0 && len(bindings) == 0 {
		// relational checks: a function that writes nothing is a deterministic function of its
		// arguments and of what it reads
		if eff := eng.effectsOf(target, f); !eff.top && len(eff.comps) == 0 {
			if v, ok := f.pureCall(st, r, target, tmap, &Contract{Key: funcKey(target), Pure: true}, args, pos); ok {
				return v
			}
		}
	}
	return f.havocCall(st, r, target, target.Signature, args, "")
}

func (f *Frame) tmapFor(callee *ssa.Function) TMap {
	// closures defined inside the current (generic) function share its type parameters
	if callee.Parent() != nil {
		for p := f; p != nil; p = p.parent {
			if p.fn == callee.Parent() {
				return p.tmap
			}
		}
		return f.tmap
	}
	return nil
}

func (f *Frame) onStack(fn *ssa.Function) bool {
	for p := f; p != nil; p = p.parent {
		if p.fn == fn {
			return true
		}
	}
	return false
}

func fullName(fn *ssa.Function) string {
	if fn.Pkg != nil {
		if recv := fn.Signature.Recv(); recv != nil {
			return fn.Pkg.Pkg.Path() + "." + strings.TrimPrefix(funcKey(fn), pkgID(fn.Pkg.Pkg)+".")
		}
		return fn.Pkg.Pkg.Path() + "." + fn.Name()
	}
	if fn.Object() != nil && fn.Object().Pkg() != nil {
		return fn.Object().Pkg().Path() + "." + strings.TrimPrefix(funcKey(fn), pkgID(fn.Object().Pkg())+".")
	}
	return fn.Name()
}

// autoInline: small loop-free module-internal helpers and closures are expanded at the call site.
func (e *Engine) autoInline(fn *ssa.Function, f *Frame) bool {
	if len(fn.Blocks) == 0 {
		return false
	}
	if !e.inModule(fn) {
		return false
	}
	if fn.Parent() != nil {
		// closures: inline when loop-free or when explicitly allowed by size
		return e.instrCount(fn) <= 400
	}
	n := e.instrCount(fn)
	if n > e.inlineLimit {
		return false
	}
	for _, b := range fn.Blocks {
		for _, s := range b.Succs {
			if s.Dominates(b) {
				return false // has a loop
			}
		}
	}
	return true
}

func (e *Engine) instrCount(fn *ssa.Function) int {
	n := 0
	for _, b := range fn.Blocks {
		n += len(b.Instrs)
	}
	return n
}

func (e *Engine) inModule(fn *ssa.Function) bool {
	var p *types.Package
	if fn.Pkg != nil {
		p = fn.Pkg.Pkg
	} else if fn.Object() != nil {
		p = fn.Object().Pkg()
	} else if fn.Parent() != nil {
		return e.inModule(fn.Parent())
	}
	return p != nil && strings.HasPrefix(p.Path(), e.modulePath)
}

func (f *Frame) inlineCall(st *State, r *Term, target *ssa.Function, tmap TMap, bindings []Val, args []Val) Val {
	sub := &Frame{ctx: f.ctx, fn: target, tmap: tmap, vals: map[ssa.Value]Val{}, depth: f.depth + 1, parent: f,
		contract: f.ctx.eng.contractFor(target), entry: f.entry, checkFrame: f.checkFrame, curKey: map[*ssa.Range]*Term{}}
	sub.inl = f.inl
	if sub.inl != "" {
		sub.inl += "/"
	}
	sub.inl += shortKey(funcKey(target))
	if len(args) != len(target.Params) {
		panic(unsupported(fmt.Sprintf("inline arity %s: %d args, %d params", target.Name(), len(args), len(target.Params))))
	}
	for i, p := range target.Params {
		sub.vals[p] = args[i]
	}
	for i, fv := range target.FreeVars {
		if i >= len(bindings) {
			panic(unsupported("closure bindings missing for " + target.Name()))
		}
		sub.vals[fv] = bindings[i]
	}
	if sub.contract != nil && len(sub.contract.Requires) > 0 {
		f.ctx.eng.callSiteN++
		sub.presiteName = fmt.Sprintf("inl%dpre", f.ctx.eng.callSiteN)
		for i, rq := range sub.contract.Requires {
			se := sub.specEnv(st, st)
			se.positive = false
			se.wit, se.witParam = rq.Wit, rq.WitParam
			f.useActiveWitnesses(se, st)
			label := rq.Label
			if label == "" {
				label = fmt.Sprint(i)
			}
			f.check("pre", "->"+shortKey(sub.contract.Key)+":"+label, r, se.evalBool(rq.Expr), token.NoPos)
			se2 := sub.specEnv(st, st)
			se2.positive = true
			se2.site = sub.presiteName
			f.ctx.assume(Implies(r, se2.evalBool(rq.Expr)))
		}
	}
	// a callee that cannot return normally makes the rest unreachable
	exit, reach, results := sub.run(st, r)
	// copy exit state into st (st is the caller's private state object)
	*st = *exit
	if reach.Op != "false" && reach != r {
		// paths that panicked inside the callee are excluded from the continuation: they were
		// reported as obligations; the continuation is reached iff the callee returned.
		f.ctx.assume(Implies(r, reach))
	}
	switch len(results) {
	case 0:
		return TupleVal{}
	case 1:
		return results[0]
	}
	return TupleVal(results)
}

func shortKey(k string) string {
	if i := strings.Index(k, "."); i >= 0 {
		return k[i+1:]
	}
	return k
}

// havocCall models a call to code without contract: unknown results, heap effects per analysis.
func (f *Frame) havocCall(st *State, r *Term, target *ssa.Function, sig *types.Signature, args []Val, why string) Val {
	f.havocClosureCells(st, args)
	top := true
	var comps map[string]Sort
	if target != nil {
		eff := f.ctx.eng.effectsOf(target, f)
		top, comps = eff.top, eff.comps
		// the callee is verified separately under the standing preconditions: a pointer receiver is non-nil
		if recv := target.Signature.Recv(); recv != nil && f.ctx.eng.inModule(target) && len(args) > 0 {
			if _, isPtr := recv.Type().Underlying().(*types.Pointer); isPtr {
				if rt, ok := args[0].(*Term); ok {
					f.check("safe", "nil-receiver:"+shortKey(funcKey(target)), r, Neq(rt, IntLit(0)), token.NoPos)
				}
			}
		}
		f.ctx.trusted["no contract: "+funcKey(target)+" (havoc: results unconstrained, effects by analysis; assumed to terminate and not to panic)"] = true
	} else {
		f.ctx.trusted[why+" (havoc: everything reachable may change; assumed to terminate and not to panic)"] = true
	}
	if top || len(comps) > 0 {
		name := "dynamic"
		if target != nil {
			name = shortKey(funcKey(target))
		}
		f.frameCheckCall(st, r, name, nil, false, token.NoPos)
	}
	if top {
		f.havocTop(st)
	} else if len(comps) > 0 {
		f.havocComps(st, comps)
		f.assumeFrameSinceEntryNothing()
	}
	f.invalidateRegisters(st)
	return f.freshResults(st, sig, "res")
}

func (f *Frame) freshResults(st *State, sig *types.Signature, hint string) Val {
	res := sig.Results()
	var out TupleVal
	for i := 0; i < res.Len(); i++ {
		t := f.subst(res.At(i).Type())
		v := f.ctx.fresh(hint, f.sortOf(t))
		f.assumeWf(st, v, t)
		out = append(out, v)
	}
	if len(out) == 1 {
		return out[0]
	}
	return out
}

func (f *Frame) invoke(st *State, r *Term, cc *ssa.CallCommon, recv *Term, args []Val, pos token.Pos) Val {
	f.check("safe", "nil-interface-call:"+describe(cc.Value)+"."+cc.Method.Name(), r, Neq(recv, Atom("anynil", SAny)), pos)
	if f.ctx.eng.invokeIsPure(cc) {
		sig := cc.Method.Type().(*types.Signature)
		// deterministic pure method: result is a function of the receiver
		if sig.Results().Len() == 1 && len(args) == 0 {
			return f.ctx.uf("method!"+cc.Method.Name(), f.sortOf(sig.Results().At(0).Type()), recv)
		}
		return f.freshResults(st, sig, "res")
	}
	// interface method with a declared contract
	ikey := "iface:" + cc.Method.Pkg().Name() + "." + ifaceName(cc.Value.Type()) + "." + cc.Method.Name()
	_ = ikey
	return f.havocCall(st, r, nil, cc.Method.Type().(*types.Signature), args, "interface call ."+cc.Method.Name())
}

func ifaceName(t types.Type) string {
	if n, ok := types.Unalias(t).(*types.Named); ok {
		return n.Obj().Name()
	}
	return t.String()
}

func (e *Engine) invokeIsPure(cc *ssa.CallCommon) bool {
	switch cc.Method.Name() {
	case "Error", "String":
		return true
	}
	return false
}

// ---- builtins ------------------------------------------------------------------------------------

func (f *Frame) builtin(st *State, r *Term, name string, cc *ssa.CallCommon, pos token.Pos) Val {
	switch name {
	case "len", "cap":
		xt := f.subst(cc.Args[0].Type())
		v := f.term(cc.Args[0])
		switch u := xt.Underlying().(type) {
		case *types.Slice:
			if name == "len" {
				return SlcLen(v)
			}
			return SlcCap(v)
		case *types.Basic:
			return f.ctx.uf("strlen", SInt, v)
		case *types.Map:
			ks := f.sortOf(u.Key())
			D := f.ctx.comp(st, f.mdName(u.Key(), u.Elem()), ArrS(SInt, ArrS(ks, SBool)))
			c := f.ctx.uf("card!"+trimSort(ks), SInt, Select(D, v))
			res := Ite(Eq(v, IntLit(0)), IntLit(0), c)
			f.ctx.assumeOnce("card:"+c.String(), Ge(c, IntLit(0)))
			return res
		case *types.Array:
			return IntLit(u.Len())
		case *types.Pointer:
			return IntLit(u.Elem().Underlying().(*types.Array).Len())
		}
		panic(unsupported("len of " + xt.String()))
	case "append":
		return f.appendOp(st, r, cc, pos)
	case "delete":
		m := f.term(cc.Args[0])
		k := f.asTerm(f.get(cc.Args[1]))
		mt := f.subst(cc.Args[0].Type()).Underlying().(*types.Map)
		ks := f.sortOf(mt.Key())
		dn := f.mdName(mt.Key(), mt.Elem())
		D := f.ctx.comp(st, dn, ArrS(SInt, ArrS(ks, SBool)))
		f.frameCheckMap(st, r, mt, m, k, "map-delete:"+describe(cc.Args[0]), pos)
		// delete on a nil map is a no-op
		st.heap[dn] = f.ctx.name("MD", Ite(Eq(m, IntLit(0)), D, Store(D, m, Store(Select(D, m), k, False))))
		return TupleVal{}
	case "copy":
		panic(unsupported("builtin copy"))
	case "print", "println":
		return TupleVal{}
	case "min", "max":
		a, b := f.term(cc.Args[0]), f.term(cc.Args[1])
		if a.S != SInt || len(cc.Args) != 2 {
			panic(unsupported("min/max"))
		}
		if name == "min" {
			return Ite(Le(a, b), a, b)
		}
		return Ite(Ge(a, b), a, b)
	case "ssa:wrapnilchk":
		v := f.get(cc.Args[0])
		return v
	}
	panic(unsupported("builtin " + name))
}

// appendOp models append(dst, src...) precisely: in place iff len+n <= cap, otherwise a fresh
// backing array with a copied prefix and an unspecified capacity >= len+n.
func (f *Frame) appendOp(st *State, r *Term, cc *ssa.CallCommon, pos token.Pos) Val {
	dstT := f.subst(cc.Args[0].Type()).Underlying().(*types.Slice)
	dst := f.term(cc.Args[0])
	es := f.sortOf(dstT.Elem())
	en := f.eName(dstT.Elem())
	E := f.ctx.comp(st, en, ArrS(SInt, ArrS(SInt, es)))
	var n *Term
	var srcAt func(j *Term) *Term
	srcT := f.subst(cc.Args[1].Type())
	if _, isStr := srcT.Underlying().(*types.Basic); isStr {
		// append([]byte, string...)
		s := f.term(cc.Args[1])
		n = f.ctx.uf("strlen", SInt, s)
		srcAt = func(j *Term) *Term { return f.ctx.uf("strat", SInt, s, j) }
	} else {
		src := f.term(cc.Args[1])
		n = SlcLen(src)
		sb, so := SlcBase(src), SlcOff(src)
		srcAt = func(j *Term) *Term { return Select(Select(E, sb), Slot(so, j)) }
	}
	dl, dc, db, do := SlcLen(dst), SlcCap(dst), SlcBase(dst), SlcOff(dst)
	if nv, ok := n.intVal(); ok && nv == 0 {
		return dst
	}
	newLen := Add(dl, n)
	inplace := f.ctx.name("inplace", Le(newLen, dc))
	nb := f.ctx.fresh("ap_base", SInt)
	nc := f.ctx.fresh("ap_cap", SInt)
	ne := f.ctx.fresh("ap_elems", ArrS(SInt, es))
	old := f.ctx.name("ap_old", Select(E, db))
	f.ctx.assume(Ite(inplace, And(Eq(nb, db), Eq(nc, dc)), And(Ge(nb, st.alloc), Gt(nb, IntLit(0)), Ge(nc, newLen))))
	x := Atom("x!ap", SInt)
	// prefix preserved
	f.ctx.assume(Forall([]*Term{x}, Implies(And(Le(do, x), Lt(x, Add(do, dl))), Eq(Select(ne, x), Select(old, x))), []*Term{Select(ne, x)}))
	// appended elements
	if nv, ok := n.intVal(); ok && nv <= 4 {
		for j := int64(0); j < nv; j++ {
			f.ctx.assume(Eq(Select(ne, Slot(do, Add(dl, IntLit(j)))), srcAt(IntLit(j))))
		}
	} else {
		j := Atom("j!ap", SInt)
		f.ctx.assume(Forall([]*Term{j}, Implies(And(Le(IntLit(0), j), Lt(j, n)), Eq(Select(ne, Slot(do, Add(dl, j))), srcAt(j))), []*Term{Select(ne, Slot(do, Add(dl, j)))}))
	}
	// in place: everything outside [off+len, off+len+n) is unchanged
	f.ctx.assume(Implies(inplace, Forall([]*Term{x}, Implies(Or(Lt(x, Add(do, dl)), Ge(x, Add(do, newLen))), Eq(Select(ne, x), Select(old, x))), []*Term{Select(ne, x)})))
	if f.checkFrame {
		// an in-place append writes into the existing backing array
		var idx *Term
		if nv, ok := n.intVal(); ok && nv == 1 {
			idx = Slot(do, dl)
		}
		if !spareCapacity(f.top().contract) {
			f.check("frame", "append:"+describe(cc.Args[0]), r, Or(Eq(n, IntLit(0)), Not(inplace), f.writeAllowed(st, en, db, idx)), pos)
		}
	}
	st.alloc = f.ctx.name("alloc", Ite(inplace, st.alloc, Add(nb, IntLit(1))))
	st.heap[en] = f.ctx.name("E", Store(E, nb, ne))
	res := MkSlice(nb, do, newLen, nc)
	// append(nil-or-anything, zero elements) returns dst itself
	if _, ok := n.intVal(); !ok {
		return f.ctx.name("ap", Ite(Eq(n, IntLit(0)), dst, res))
	}
	return res
}

func (f *Frame) assumeFrameSinceEntryNothing() {}

// modelSlicesClone: slices.Clone(s) is `if s == nil { return nil }; return append(s[:0:0], s...)` (go1.21+):
// nil for nil, a zero-capacity view of s for an empty s, otherwise a freshly allocated array holding the
// elements of s. Nothing that existed is written.
func (f *Frame) modelSlicesClone(st *State, callee *ssa.Function, arg Val) (Val, bool) {
	src, ok := arg.(*Term)
	if !ok || callee.Signature.Params().Len() != 1 {
		return nil, false
	}
	sl, ok := f.subst(callee.Signature.Params().At(0).Type()).Underlying().(*types.Slice)
	if !ok {
		return nil, false
	}
	trust(f, "slices.Clone(s) is append(s[:0:0], s...) for a non-nil s and nil for nil (its go1.21+ source)")
	es := f.sortOf(sl.Elem())
	en := f.eName(sl.Elem())
	E := f.ctx.comp(st, en, ArrS(SInt, ArrS(SInt, es)))
	n := SlcLen(src)
	sb, so := SlcBase(src), SlcOff(src)
	nb := f.ctx.fresh("cl_base", SInt)
	nc := f.ctx.fresh("cl_cap", SInt)
	ne := f.ctx.fresh("cl_elems", ArrS(SInt, es))
	f.ctx.assume(And(Ge(nb, st.alloc), Gt(nb, IntLit(0)), Ge(nc, n)))
	j := Atom("j!cl", SInt)
	f.ctx.assume(Forall([]*Term{j}, Implies(And(Le(IntLit(0), j), Lt(j, n)), Eq(Select(ne, Slot(IntLit(0), j)), Select(Select(E, sb), Slot(so, j)))), []*Term{Select(ne, Slot(IntLit(0), j))}))
	nonEmpty := f.ctx.name("cl_nonempty", And(Neq(sb, IntLit(0)), Gt(n, IntLit(0))))
	st.alloc = f.ctx.name("alloc", Ite(nonEmpty, Add(nb, IntLit(1)), st.alloc))
	st.heap[en] = f.ctx.name("E", Ite(nonEmpty, Store(E, nb, ne), E))
	fresh := MkSlice(nb, IntLit(0), n, nc)
	empty := MkSlice(sb, so, IntLit(0), IntLit(0))
	return f.ctx.name("clone", Ite(Eq(sb, IntLit(0)), src, Ite(Gt(n, IntLit(0)), fresh, empty))), true
}

func (f *Frame) isFresh(ref *Term) *Term {
	if f.parentEntryOverride != nil {
		return Ge(ref, f.parentEntryOverride.alloc)
	}
	return Ge(ref, f.top().entry.alloc)
}

func (f *Frame) top() *Frame {
	p := f
	for p.parent != nil {
		p = p.parent
	}
	return p
}

// ---- effects analysis ----------------------------------------------------------------------------

type effects struct {
	top   bool
	comps map[string]Sort
}

func (e *Engine) effectsOf(callee *ssa.Function, caller *Frame) *effects {
	target := callee
	tmap := TMap{}
	if o := callee.Origin(); o != nil {
		target = o
		tps := o.TypeParams()
		tas := callee.TypeArgs()
		for i := 0; i < tps.Len() && i < len(tas); i++ {
			tmap[tps.At(i)] = caller.subst(tas[i])
		}
	} else if callee.Parent() != nil {
		tmap = caller.tmapFor(callee)
	}
	key := funcKey(target) + "|" + tmapKey(tmap)
	if ef, ok := e.effMemo[key]; ok {
		return ef
	}
	ef := &effects{comps: map[string]Sort{}}
	seen := map[string]bool{}
	var visit func(fn *ssa.Function, tm TMap)
	visit = func(fn *ssa.Function, tm TMap) {
		if ef.top {
			return
		}
		k := funcKey(fn) + "|" + tmapKey(tm)
		if seen[k] {
			return
		}
		seen[k] = true
		if ct := e.contracts.Funcs[funcKey(fn)]; ct != nil && !ct.Inline && (ct.Pure || ct.Fresh || (ct.ModifiesSet && modifiesNothing(ct))) && fn != target {
			return // by contract it writes nothing that existed before the call
		}
		if _, ok := externModels[fullName(fn)]; ok {
			return
		}
		if len(fn.Blocks) == 0 || !e.inModule(fn) {
			if e.externConfined(fn) {
				e.confinedEffects(fn, nil, &Frame{ctx: caller.ctx, fn: fn, tmap: tm, vals: map[ssa.Value]Val{}}, ef)
				return
			}
			if !e.externPure(fn) {
				ef.top = true
			}
			return
		}
		pf := &Frame{ctx: caller.ctx, fn: fn, tmap: tm, vals: map[ssa.Value]Val{}}
		ms := &modSet{comps: ef.comps, locals: map[*ssa.Alloc][][]int{}}
		for _, b := range fn.Blocks {
			for _, in := range b.Instrs {
				ci, isCall := in.(ssa.CallInstruction)
				if !isCall {
					pf.instrMods(in, ms)
					continue
				}
				cc := ci.Common()
				if _, ok := cc.Value.(*ssa.Builtin); ok {
					pf.callMods(cc, ms)
					continue
				}
				if cc.IsInvoke() {
					if !e.invokeIsPure(cc) {
						ef.top = true
					}
					continue
				}
				sc := cc.StaticCallee()
				if sc == nil {
					if mc, ok := cc.Value.(*ssa.MakeClosure); ok {
						sc = mc.Fn.(*ssa.Function)
					}
				}
				if sc == nil {
					if _, isParam := cc.Value.(*ssa.Parameter); isParam {
						if ct := e.contracts.Funcs[funcKey(fn)]; ct != nil && ct.PureCallbacks {
							continue
						}
					}
					if ftKey, nt := functypeKey(pf.subst(cc.Value.Type())); nt != nil {
						if ct := e.contracts.Funcs[ftKey]; ct != nil && ct.ModifiesSet {
							pf.functypeMods(ct, nt, ms)
							continue
						}
					}
					ef.top = true
					continue
				}
				if !e.inModule(sc) && (e.externConfined(sc) || strings.HasPrefix(fullName(sc), "sort.")) {
					if _, hasModel := externModels[fullName(sc)]; !hasModel || strings.HasPrefix(fullName(sc), "sort.") {
						e.confinedEffects(sc, cc, pf, ef)
						continue
					}
				}
				ntm := TMap{}
				nt := sc
				if o := sc.Origin(); o != nil {
					nt = o
					tps := o.TypeParams()
					tas := sc.TypeArgs()
					for i := 0; i < tps.Len() && i < len(tas); i++ {
						ntm[tps.At(i)] = substType(tas[i], tm)
					}
				} else if sc.Parent() != nil {
					ntm = tm
				}
				visit(nt, ntm)
			}
		}
		if ms.top {
			ef.top = true
		}
	}
	visit(target, tmap)
	e.effMemo[key] = ef
	return ef
}

func tmapKey(tm TMap) string {
	if len(tm) == 0 {
		return ""
	}
	var parts []string
	for k, v := range tm {
		parts = append(parts, k.Obj().Name()+"="+v.String())
	}
	sort.Strings(parts)
	return strings.Join(parts, ",")
}

var purePkgs = map[string]bool{
	"strings": true, "strconv": true, "errors": true, "unicode": true, "unicode/utf8": true, "math": true, "path": true,
	"path/filepath": true, "regexp": true, "bytes": true, "slices": false, "fmt": true, "reflect": true, "time": true,
	"github.com/google/go-cmp/cmp": true, "github.com/huandu/xstrings": true, "golang.org/x/text/cases": true,
	"golang.org/x/text/language": true, "go/token": true, "encoding/json": false, "os": true, "io": false, "maps": false,
}

func (e *Engine) externPure(fn *ssa.Function) bool {
	var p *types.Package
	if fn.Pkg != nil {
		p = fn.Pkg.Pkg
	} else if fn.Object() != nil {
		p = fn.Object().Pkg()
	}
	if p == nil {
		return false
	}
	return purePkgs[p.Path()]
}

// confinedEffects: components a confined library function may write, from its parameter types and,
// when the call instruction is known, from what the interface-typed arguments actually box.
func (e *Engine) confinedEffects(fn *ssa.Function, cc *ssa.CallCommon, pf *Frame, ef *effects) {
	var pts []types.Type
	if recv := fn.Signature.Recv(); recv != nil {
		pts = append(pts, recv.Type())
	}
	for i := 0; i < fn.Signature.Params().Len(); i++ {
		pts = append(pts, fn.Signature.Params().At(i).Type())
	}
	var addType func(pt types.Type, arg ssa.Value)
	addType = func(pt types.Type, arg ssa.Value) {
		pt = pf.subst(pt)
		if _, isTP := types.Unalias(pt).(*types.TypeParam); isTP {
			return
		}
		switch u := pt.Underlying().(type) {
		case *types.Pointer:
			if _, isStruct := u.Elem().Underlying().(*types.Struct); isStruct {
				si := pf.structInfo(u.Elem())
				for i := range si.Fields {
					ef.comps[compF(si, i)] = ArrS(SInt, si.Fields[i].Sort)
				}
			} else if at, isArr := u.Elem().Underlying().(*types.Array); isArr {
				es := pf.sortOf(at.Elem())
				ef.comps[pf.eName(at.Elem())] = ArrS(SInt, ArrS(SInt, es))
			} else {
				s := pf.sortOf(u.Elem())
				ef.comps[pf.pName(u.Elem())] = ArrS(SInt, s)
			}
		case *types.Slice:
			es := pf.sortOf(u.Elem())
			ef.comps[pf.eName(u.Elem())] = ArrS(SInt, ArrS(SInt, es))
		case *types.Interface:
			// what does the argument box?
			switch a := arg.(type) {
			case *ssa.MakeInterface:
				addType(a.X.Type(), a.X)
			case *ssa.ChangeType:
				addType(a.X.Type(), a.X)
			case *ssa.Const:
				// nil interface
			default:
				ef.top = true
			}
		}
	}
	for i, pt := range pts {
		var arg ssa.Value
		if cc != nil && i < len(cc.Args) && len(cc.Args) == len(pts) {
			arg = cc.Args[i]
		}
		addType(pt, arg)
	}
}

// readsOf: heap components a function (and its static callees) may read. Used for `pure` contracts:
// a pure call is a deterministic function of its arguments and of these components.
func (e *Engine) readsOf(callee *ssa.Function, caller *Frame) *effects {
	target := callee
	tmap := TMap{}
	if o := callee.Origin(); o != nil {
		target = o
		tps := o.TypeParams()
		tas := callee.TypeArgs()
		for i := 0; i < tps.Len() && i < len(tas); i++ {
			tmap[tps.At(i)] = caller.subst(tas[i])
		}
	}
	key := "reads|" + funcKey(target) + "|" + tmapKey(tmap)
	if ef, ok := e.effMemo[key]; ok {
		return ef
	}
	ef := &effects{comps: map[string]Sort{}}
	seen := map[string]bool{}
	var visit func(fn *ssa.Function, tm TMap)
	visit = func(fn *ssa.Function, tm TMap) {
		if ef.top {
			return
		}
		k := funcKey(fn) + "|" + tmapKey(tm)
		if seen[k] {
			return
		}
		seen[k] = true
		if len(fn.Blocks) == 0 || !e.inModule(fn) {
			if e.externPure(fn) && !e.externConfined(fn) {
				return
			}
			ef.top = true
			return
		}
		pf := &Frame{ctx: caller.ctx, fn: fn, tmap: tm, vals: map[ssa.Value]Val{}}
		ms := &modSet{comps: ef.comps, locals: map[*ssa.Alloc][][]int{}}
		for _, b := range fn.Blocks {
			for _, in := range b.Instrs {
				switch x := in.(type) {
				case *ssa.UnOp:
					if x.Op == token.MUL {
						pf.addStoreMods(x.X, ms)
					}
				case *ssa.Lookup:
					if mt, ok := pf.subst(x.X.Type()).Underlying().(*types.Map); ok {
						pf.addMapMods(mt, ms, true, true)
					}
				case *ssa.Range:
					if mt, ok := pf.subst(x.X.Type()).Underlying().(*types.Map); ok {
						pf.addMapMods(mt, ms, true, true)
					}
				case ssa.CallInstruction:
					cc := x.Common()
					if bi, ok := cc.Value.(*ssa.Builtin); ok {
						if bi.Name() == "len" {
							if mt, ok := pf.subst(cc.Args[0].Type()).Underlying().(*types.Map); ok {
								pf.addMapMods(mt, ms, true, false)
							}
						}
						if bi.Name() == "append" || bi.Name() == "copy" {
							if st, ok := pf.subst(cc.Args[0].Type()).Underlying().(*types.Slice); ok {
								pf.addComp(ms, pf.eName(st.Elem()), ArrS(SInt, ArrS(SInt, pf.sortOf(st.Elem()))))
							}
						}
						continue
					}
					if cc.IsInvoke() {
						if !e.invokeIsPure(cc) {
							ef.top = true
						}
						continue
					}
					sc := cc.StaticCallee()
					if sc == nil {
						if mc, ok := cc.Value.(*ssa.MakeClosure); ok {
							sc = mc.Fn.(*ssa.Function)
						}
					}
					if sc == nil {
						ef.top = true
						continue
					}
					if _, hasModel := externModels[fullName(sc)]; hasModel {
						continue
					}
					ntm := TMap{}
					nt := sc
					if o := sc.Origin(); o != nil {
						nt = o
						tps := o.TypeParams()
						tas := sc.TypeArgs()
						for i := 0; i < tps.Len() && i < len(tas); i++ {
							ntm[tps.At(i)] = substType(tas[i], tm)
						}
					} else if sc.Parent() != nil {
						ntm = tm
					}
					visit(nt, ntm)
				}
			}
		}
		if ms.top {
			ef.top = true
		}
	}
	visit(target, tmap)
	e.effMemo[key] = ef
	return ef
}

// pureCall: the result of a `pure` function is a function of its arguments and of what it may read.
func (f *Frame) pureCall(st *State, r *Term, target *ssa.Function, tmap TMap, ct *Contract, args []Val, pos token.Pos) (Val, bool) {
	sig := target.Signature
	reads := f.ctx.eng.readsOf(target, f)
	if reads.top {
		return nil, false
	}
	cf := &Frame{ctx: f.ctx, fn: target, tmap: tmap, vals: map[ssa.Value]Val{}, parent: f}
	var ts []*Term
	for _, a := range args {
		t, ok := a.(*Term)
		if !ok {
			return nil, false
		}
		ts = append(ts, t)
	}
	names := make([]string, 0, len(reads.comps))
	for k := range reads.comps {
		names = append(names, k)
	}
	sort.Strings(names)
	for _, k := range names {
		ts = append(ts, f.ctx.comp(st, k, reads.comps[k]))
	}
	var out TupleVal
	for i := 0; i < sig.Results().Len(); i++ {
		rt := cf.subst(sig.Results().At(i).Type())
		v := f.ctx.uf("pure!"+funcKey(target)+"!"+itoa(i), cf.sortOf(rt), ts...)
		if !mentionsBound(v) {
			v = f.ctx.define("pure", v)
			f.assumeWf(st, v, rt)
		}
		out = append(out, v)
	}
	f.ctx.trusted["pure function "+funcKey(target)+": its result is a function of its arguments and of the heap components it can read (determinism of sequential Go code)"] = true
	if len(out) == 1 {
		return out[0], true
	}
	return out, true
}
