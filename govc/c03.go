package main

// C03: determinism. A cog run is sequential Go; the only scheduling freedom is the iteration order of
// every `range` over a built-in map. One obligation per such site in cog's own (non-test) code.

import (
	"fmt"
	"go/types"
	"path/filepath"
	"sort"
	"strings"

	"golang.org/x/tools/go/ssa"
	"golang.org/x/tools/go/ssa/ssautil"
)

type mapRangeSite struct {
	Name  string // commute:<func>:range<k>
	Fn    *ssa.Function
	Root  *ssa.Function
	Range *ssa.Range
	Ord   int
	Pos   string
}

func (e *Engine) mapRangeSites() []mapRangeSite {
	var out []mapRangeSite
	var keys []string
	for k := range e.fnByKey {
		keys = append(keys, k)
	}
	sort.Strings(keys)
	for _, k := range keys {
		fn := e.fnByKey[k]
		if !e.inModule(fn) || fn.Synthetic != "" {
			continue
		}
		ord := 0
		for _, b := range fn.Blocks {
			for _, in := range b.Instrs {
				rg, ok := in.(*ssa.Range)
				if !ok {
					continue
				}
				if _, isMap := rg.X.Type().Underlying().(*types.Map); !isMap {
					continue
				}
				root := fn
				for root.Parent() != nil {
					root = root.Parent()
				}
				pos := e.prog.Fset.Position(rg.Pos())
				out = append(out, mapRangeSite{Name: fmt.Sprintf("%s:range%d", k, ord), Fn: fn, Root: root, Range: rg, Ord: ord,
					Pos: fmt.Sprintf("%s:%d", shortPath(pos.Filename), pos.Line)})
				ord++
			}
		}
	}
	return out
}

// commuteResult: the 2-copy order-independence obligation of one map-range site. The loop body is
// executed from an arbitrary state for two arbitrary distinct keys of the map, in both orders; the
// two final states (heap components, local cells, loop-carried variables) must be equal. Equality for
// all states and all key pairs gives equality over all enumeration orders (adjacent transpositions
// generate the symmetric group). Bodies that can leave the loop early or that allocate are not
// decided by this obligation (it then fails and the site needs a site-specific argument).
func (e *Engine) commuteResult(site mapRangeSite) (res *FuncResult) {
	ctx := newCtx(e, site.Fn)
	ctx.fnKey = site.Name
	res = &FuncResult{Key: "commute:" + site.Name, Fn: site.Fn, Ctx: ctx, Instrs: e.instrCount(site.Fn)}
	defer func() {
		if r := recover(); r != nil {
			switch er := r.(type) {
			case unsupportedErr:
				res.Unsupported = er.msg
			case specErr:
				res.ContractErr = er.msg
			default:
				res.Unsupported = fmt.Sprintf("internal error: %v", r)
			}
		}
		var kept []*Oblig
		for _, o := range ctx.obligs {
			if o.Kind == "commute" {
				kept = append(kept, o)
			} else if o.Reach != nil && o.Cond != nil && o.Cond.Op != "false" {
				// obligations of other kinds (callee preconditions, safety) are assumed in the 2-copy execution:
				// an assumption that cannot hold where it is made would make the commute obligations vacuous
				res.PathCovers = append(res.PathCovers, &Oblig{Name: "cover:assumed:" + o.Name, Kind: "cover", Func: o.Func, CtxLen: o.CtxLen, Goal: Not(And(o.Reach, o.Cond)), Reach: o.Reach, Expect: "sat", ctx: ctx})
			}
		}
		res.Obligs = kept
	}()
	fn := site.Fn
	f := &Frame{ctx: ctx, fn: fn, tmap: TMap{}, vals: map[ssa.Value]Val{}, curKey: map[*ssa.Range]*Term{}, ghosts: map[string]SVal{}}
	st := &State{heap: map[string]*Term{}, locals: map[*ssa.Alloc]*Term{}}
	st.alloc = ctx.constant("alloc@entry", SInt)
	ctx.assume(Gt(st.alloc, IntLit(0)))
	f.entry = st
	f.analyzeLoops()
	var header *ssa.BasicBlock
	for _, b := range fn.Blocks {
		for _, in := range b.Instrs {
			if nx, ok := in.(*ssa.Next); ok && nx.Iter == ssa.Value(site.Range) {
				header = b
			}
		}
	}
	li := f.loops[header]
	if header == nil || li == nil {
		panic(unsupported("range without a loop header"))
	}
	// every value the body uses but does not define is arbitrary
	var arbitrary func(v ssa.Value) Val
	arbitrary = func(v ssa.Value) Val {
		if x, ok := f.vals[v]; ok {
			return x
		}
		var out Val
		switch x := v.(type) {
		case *ssa.Const, *ssa.Function, *ssa.Builtin, *ssa.Global:
			return f.get(v)
		case *ssa.Alloc:
			et := derefT(x.Type())
			if !x.Heap || e.privateCell(x) {
				st.locals[x] = ctx.fresh("cell!"+x.Comment, f.sortOf(et))
				f.assumeWf(st, st.locals[x], et)
				out = LocVal{kind: locLocal, alloc: x, rootT: et, T: et}
			} else {
				r := ctx.fresh("obj!"+x.Comment, SInt)
				ctx.assume(And(Gt(r, IntLit(0)), Lt(r, st.alloc)))
				out = r
			}
		case *ssa.MakeClosure:
			var bs []Val
			for _, b := range x.Bindings {
				bs = append(bs, arbitrary(b))
			}
			out = ClosureVal{Fn: x.Fn.(*ssa.Function), Bindings: bs}
		case *ssa.Range:
			mt := f.subst(x.X.Type()).Underlying().(*types.Map)
			m := f.asTerm(arbitrary(x.X))
			ks := f.sortOf(mt.Key())
			out = RangeIterVal{X: m, T: f.subst(x.X.Type()), Dom0: ctx.fresh("dom0", ArrS(ks, SBool)), Instr: x}
		default:
			t := f.subst(v.Type())
			if tup, isTuple := t.(*types.Tuple); isTuple {
				var tv TupleVal
				for i := 0; i < tup.Len(); i++ {
					c := ctx.fresh("outer", f.sortOf(tup.At(i).Type()))
					f.assumeWf(st, c, tup.At(i).Type())
					tv = append(tv, c)
				}
				out = tv
			} else {
				c := ctx.fresh("outer!"+v.Name(), f.sortOf(t))
				f.assumeWf(st, c, t)
				out = c
			}
		}
		f.vals[v] = out
		return out
	}
	inBody := func(v ssa.Value) bool {
		in, ok := v.(ssa.Instruction)
		return ok && in.Block() != nil && li.body[in.Block()] && in.Parent() == fn
	}
	for b := range li.body {
		for _, in := range b.Instrs {
			for _, op := range in.Operands(nil) {
				if *op == nil || inBody(*op) {
					continue
				}
				arbitrary(*op)
			}
		}
	}
	it := f.vals[site.Range].(RangeIterVal)
	mt := it.T.Underlying().(*types.Map)
	phi0 := map[*ssa.Phi]Val{}
	for _, in := range header.Instrs {
		ph, ok := in.(*ssa.Phi)
		if !ok {
			break
		}
		c := ctx.fresh("carried!"+ph.Comment, f.sortOf(ph.Type()))
		f.assumeWf(st, c, ph.Type())
		phi0[ph] = c
	}
	ks := f.sortOf(mt.Key())
	k1, k2 := ctx.fresh("k1", ks), ctx.fresh("k2", ks)
	ctx.assume(And(Neq(k1, k2), Select(it.Dom0, k1), Select(it.Dom0, k2)))
	f.relational = true
	var exits []*Term
	iter := func(s *State, phis map[*ssa.Phi]Val, k *Term) (*State, map[*ssa.Phi]Val) {
		cur := s.clone()
		val, _ := f.mapRead(cur, mt, it.X.(*Term), k)
		lr := &loopRun{header: header, rg: site.Range, next: TupleVal{True, k, val}, phiIn: phis}
		f.loopRun = lr
		f.run(cur, True)
		f.loopRun = nil
		exits = append(exits, lr.exits...)
		if len(lr.backs) == 0 {
			panic(unsupported("loop body never reaches its back edge"))
		}
		var es []edge
		for _, b := range lr.backs {
			es = append(es, edge{cond: b.cond, st: b.st})
		}
		ms, _ := f.mergeStates(es)
		if len(es) == 1 {
			ms = es[0].st
		}
		out := map[*ssa.Phi]Val{}
		for ph := range phis {
			var vs []Val
			for _, b := range lr.backs {
				vs = append(vs, b.phis[ph])
			}
			out[ph] = f.mergeVals(es, vs, "carried")
		}
		return ms, out
	}
	sA, pA := iter(st, phi0, k1)
	sAB, pAB := iter(sA, pA, k2)
	sB, pB := iter(st, phi0, k2)
	sBA, pBA := iter(sB, pB, k1)
	pos := site.Range.Pos()
	f.check("commute", "no-early-exit", True, Not(Or(exits...)), pos)
	collected := collectedSlices(header, li)
	collectedCells := collectedCellSlices(fn, li)
	var eqs []*Term
	names := map[string]Sort{}
	for k, v := range sAB.heap {
		names[k] = v.S
	}
	for k, v := range sBA.heap {
		names[k] = v.S
	}
	var keys []string
	for k := range names {
		keys = append(keys, k)
	}
	sort.Strings(keys)
	// memory that existed before the two iterations must agree (objects allocated during the
	// iterations are compared through what refers to them); the backing arrays of collected slices
	// are compared separately, modulo the order of the two appended elements
	var collectedBases []*Term
	for ph := range collected {
		if t, ok := phi0[ph].(*Term); ok && t.S == SSlc {
			collectedBases = append(collectedBases, SlcBase(t))
		}
	}
	for a := range collectedCells {
		if t, ok := st.locals[a]; ok && t.S == SSlc {
			collectedBases = append(collectedBases, SlcBase(t))
		}
	}
	for _, k := range keys {
		a, b := ctx.comp(sAB, k, names[k]), ctx.comp(sBA, k, names[k])
		if a == b {
			continue
		}
		if len(k) > 1 && (k[0] == 'G' || k[0] == '$') {
			eqs = append(eqs, Eq(a, b))
			continue
		}
		rq := Atom("r!cm", SInt)
		cond := []*Term{Lt(rq, st.alloc)}
		if k[0] == 'E' {
			for _, cb := range collectedBases {
				cond = append(cond, Neq(rq, cb))
			}
		}
		eqs = append(eqs, Forall([]*Term{rq}, Implies(And(cond...), Eq(Select(a, rq), Select(b, rq))), []*Term{Select(a, rq)}))
	}
	swapEq := func(va, vb *Term, et types.Type) []*Term {
		// a slice the body only appends to: same length, same prefix, the two new elements swapped
		es := f.sortOf(et)
		Ea := ctx.comp(sAB, f.eName(et), ArrS(SInt, ArrS(SInt, es)))
		Eb := ctx.comp(sBA, f.eName(et), ArrS(SInt, ArrS(SInt, es)))
		n := SlcLen(va)
		x := Atom("x!cm", SInt)
		at := func(E, s, i *Term) *Term { return Select(Select(E, SlcBase(s)), Slot(SlcOff(s), i)) }
		return []*Term{Eq(n, SlcLen(vb)),
			Forall([]*Term{x}, Implies(And(Le(IntLit(0), x), Lt(x, Sub(n, IntLit(2)))), Eq(at(Ea, va, x), at(Eb, vb, x))), []*Term{at(Ea, va, x)}),
			Eq(at(Ea, va, Sub(n, IntLit(2))), at(Eb, vb, Sub(n, IntLit(1)))),
			Eq(at(Ea, va, Sub(n, IntLit(1))), at(Eb, vb, Sub(n, IntLit(2))))}
	}
	for a, v := range sAB.locals {
		if w, ok := sBA.locals[a]; ok {
			if et, isC := collectedCells[a]; isC {
				eqs = append(eqs, swapEq(v, w, et)...)
				continue
			}
			eqs = append(eqs, Eq(v, w))
		}
	}
	for ph, v := range pAB {
		va, vb := f.asTerm(v), f.asTerm(pBA[ph])
		if et, ok := collected[ph]; ok && va.S == SSlc {
			// a slice the body only appends to: same length, same prefix, the two new elements swapped
			eqs = append(eqs, swapEq(va, vb, et)...)
			continue
		}
		eqs = append(eqs, Eq(va, vb))
	}
	if len(collected) > 0 || len(collectedCells) > 0 {
		f.check("commute", "collected-slice-sorted-before-use", True, BoolLit(sortedBeforeUse(fn, header, li, collected) && cellsSortedBeforeUse(fn, li, collectedCells)), pos)
	}
	f.check("commute", "state-independent-of-order", True, And(eqs...), pos)
	return res
}

// deterministicCall (relational checks only): a call through an opaque function value with scalar
// arguments yields a value that depends only on the function and the arguments, and changes nothing.
// This is the per-site assumption "callbacks are deterministic and side-effect free during the loop".
func (f *Frame) deterministicCall(st *State, fnv *Term, cc *ssa.CallCommon, args []Val) (Val, bool) {
	ts := []*Term{fnv}
	for _, a := range args {
		t, ok := a.(*Term)
		if !ok {
			return nil, false
		}
		ts = append(ts, t)
	}
	sig := cc.Signature()
	var out TupleVal
	for i := 0; i < sig.Results().Len(); i++ {
		rt := f.subst(sig.Results().At(i).Type())
		out = append(out, f.ctx.uf(fmt.Sprintf("dyncall!%s!%d", trimSort(f.sortOf(rt)), len(ts)), f.sortOf(rt), ts...))
	}
	f.ctx.trusted["relational assumption: function values called inside the loop are deterministic functions of their arguments and have no effect on memory"] = true
	if len(out) == 1 {
		return out[0], true
	}
	return out, true
}

// collectedSlices: loop-carried slices whose only update in the body is `s = append(s, x)` with one
// element per iteration (collect-then-sort pattern). Returns their element types.
func collectedSlices(header *ssa.BasicBlock, li *loopInfo) map[*ssa.Phi]types.Type {
	out := map[*ssa.Phi]types.Type{}
	for _, in := range header.Instrs {
		ph, ok := in.(*ssa.Phi)
		if !ok {
			break
		}
		st, ok := ph.Type().Underlying().(*types.Slice)
		if !ok {
			continue
		}
		good := true
		for i, e := range ph.Edges {
			if !li.body[header.Preds[i]] {
				continue // entry edge
			}
			call, ok := e.(*ssa.Call)
			if !ok {
				good = false
				break
			}
			bi, ok := call.Call.Value.(*ssa.Builtin)
			if !ok || bi.Name() != "append" || call.Call.Args[0] != ssa.Value(ph) {
				good = false
				break
			}
			// exactly one appended element: append(ph, slice(new [1]T))
			sl, ok := call.Call.Args[1].(*ssa.Slice)
			if !ok {
				good = false
				break
			}
			if al, ok := sl.X.(*ssa.Alloc); !ok || al.Comment != "varargs" {
				good = false
			} else if at, ok := derefT(al.Type()).Underlying().(*types.Array); !ok || at.Len() != 1 {
				good = false
			}
		}
		if good {
			out[ph] = st.Elem()
		}
	}
	return out
}

// sortedBeforeUse: after the loop every collected slice is handed to sort.* (or slices.Sort*) before
// anything else looks at it, or is returned as it is from a helper whose callers carry the
// obligation (then this is false here and the site is listed by caller).
func sortedBeforeUse(fn *ssa.Function, header *ssa.BasicBlock, li *loopInfo, collected map[*ssa.Phi]types.Type) bool {
	for ph := range collected {
		ok := false
		// uses of the phi outside the loop body, in block order
		var uses []ssa.Instruction
		for _, ref := range *ph.Referrers() {
			if _, isDbg := ref.(*ssa.DebugRef); isDbg {
				continue
			}
			if li.body[ref.Block()] && ref.Block() != header {
				continue
			}
			if ref.Block() == header {
				continue
			}
			uses = append(uses, ref)
		}
		if len(uses) == 0 {
			continue
		}
		// a helper that returns the collected slice as it is: every caller must sort the result first
		allReturns := true
		for _, u := range uses {
			if _, isRet := u.(*ssa.Return); !isRet {
				allReturns = false
			}
		}
		if allReturns {
			if callersSortResult(fn) {
				continue
			}
			return false
		}
		// the first use (dominating all the others) must be the boxing/argument of a sort call
		first := uses[0]
		for _, u := range uses[1:] {
			if u.Block() == first.Block() {
				for _, in := range u.Block().Instrs {
					if in == u {
						first = u
						break
					}
					if in == first {
						break
					}
				}
			} else if u.Block().Dominates(first.Block()) {
				first = u
			}
		}
		isSort := isTotalOrderSort
		switch x := first.(type) {
		case *ssa.Call:
			ok = isSort(&x.Call)
		case *ssa.MakeInterface:
			for _, r2 := range *x.Referrers() {
				if c, isCall := r2.(*ssa.Call); isCall && isSort(&c.Call) {
					ok = true
				}
			}
		}
		if !ok {
			return false
		}
	}
	return true
}

// collectedCellSlices: like collectedSlices, for slice variables that live in a cell (captured by a
// closure, e.g. the comparison function handed to sort.Slice).
func collectedCellSlices(fn *ssa.Function, li *loopInfo) map[*ssa.Alloc]types.Type {
	out := map[*ssa.Alloc]types.Type{}
	bad := map[*ssa.Alloc]bool{}
	for b := range li.body {
		for _, in := range b.Instrs {
			st, ok := in.(*ssa.Store)
			if !ok {
				continue
			}
			a, ok := st.Addr.(*ssa.Alloc)
			if !ok {
				continue
			}
			sl, ok := derefT(a.Type()).Underlying().(*types.Slice)
			if !ok {
				continue
			}
			call, ok := st.Val.(*ssa.Call)
			good := false
			if ok {
				if bi, isB := call.Call.Value.(*ssa.Builtin); isB && bi.Name() == "append" {
					if ld, isLd := call.Call.Args[0].(*ssa.UnOp); isLd && ld.X == ssa.Value(a) {
						if s2, isS := call.Call.Args[1].(*ssa.Slice); isS {
							if al, isA := s2.X.(*ssa.Alloc); isA && al.Comment == "varargs" {
								if at, isArr := derefT(al.Type()).Underlying().(*types.Array); isArr && at.Len() == 1 {
									good = true
								}
							}
						}
					}
				}
			}
			if good && !bad[a] {
				out[a] = sl.Elem()
			} else {
				bad[a] = true
				delete(out, a)
			}
		}
	}
	return out
}

// cellsSortedBeforeUse: outside the loop, the first thing done with the cell's slice is a sort.
func cellsSortedBeforeUse(fn *ssa.Function, li *loopInfo, cells map[*ssa.Alloc]types.Type) bool {
	for a := range cells {
		found := false
		// look for a sort call whose first argument is (a boxing of) a load of the cell, in a block the
		// loop exit reaches before any other load of the cell
		var loads []*ssa.UnOp
		for _, ref := range *a.Referrers() {
			if ld, ok := ref.(*ssa.UnOp); ok && !li.body[ld.Block()] && ld.Block().Index > li.header.Index {
				loads = append(loads, ld)
			}
		}
		if len(loads) == 0 {
			return false
		}
		first := loads[0]
		for _, ld := range loads[1:] {
			if ld.Block() == first.Block() {
				for _, in := range ld.Block().Instrs {
					if in == ssa.Instruction(ld) {
						first = ld
						break
					}
					if in == ssa.Instruction(first) {
						break
					}
				}
			} else if ld.Block().Dominates(first.Block()) {
				first = ld
			}
		}
		for _, ref := range *first.Referrers() {
			switch x := ref.(type) {
			case *ssa.Call:
				if sc := x.Call.StaticCallee(); sc != nil && (strings.HasPrefix(fullName(sc), "sort.") || strings.HasPrefix(fullName(sc), "slices.Sort")) {
					found = true
				}
			case *ssa.MakeInterface:
				for _, r2 := range *x.Referrers() {
					if c, ok := r2.(*ssa.Call); ok {
						if sc := c.Call.StaticCallee(); sc != nil && (strings.HasPrefix(fullName(sc), "sort.") || strings.HasPrefix(fullName(sc), "slices.Sort")) {
							found = true
						}
					}
				}
			}
		}
		if !found {
			return false
		}
	}
	return true
}

// callersSortResult: every call of fn in the loaded program hands its result to sort.* before any
// other use (the order-independence obligation of a key-collecting helper moves to its callers).
func callersSortResult(fn *ssa.Function) bool {
	prog := fn.Prog
	found := false
	for f := range ssautilAllFunctions(prog) {
		for _, b := range f.Blocks {
			for _, in := range b.Instrs {
				call, ok := in.(*ssa.Call)
				if !ok {
					continue
				}
				sc := call.Call.StaticCallee()
				if sc == nil {
					continue
				}
				if sc != fn && sc.Origin() != fn {
					continue
				}
				found = true
				refs := call.Referrers()
				if refs == nil {
					return false
				}
				ok = false
				for _, r := range *refs {
					switch x := r.(type) {
					case *ssa.DebugRef:
					case *ssa.Call:
						if c := x.Call.StaticCallee(); c != nil && (strings.HasPrefix(fullName(c), "sort.") || strings.HasPrefix(fullName(c), "slices.Sort")) {
							ok = true
						}
					case *ssa.MakeInterface:
						for _, r2 := range *x.Referrers() {
							if c2, isC := r2.(*ssa.Call); isC {
								if c := c2.Call.StaticCallee(); c != nil && strings.HasPrefix(fullName(c), "sort.") {
									ok = true
								}
							}
						}
					case *ssa.Store:
						// stored into a variable first: accept only if that variable's first use is a sort
						if a, isA := x.Addr.(*ssa.Alloc); isA {
							for _, r3 := range *a.Referrers() {
								if ld, isLd := r3.(*ssa.UnOp); isLd {
									for _, r4 := range *ld.Referrers() {
										switch y := r4.(type) {
										case *ssa.Call:
											if c := y.Call.StaticCallee(); c != nil && strings.HasPrefix(fullName(c), "sort.") {
												ok = true
											}
										case *ssa.MakeInterface:
											for _, r5 := range *y.Referrers() {
												if c5, isC := r5.(*ssa.Call); isC {
													if c := c5.Call.StaticCallee(); c != nil && strings.HasPrefix(fullName(c), "sort.") {
														ok = true
													}
												}
											}
										}
									}
								}
							}
						}
					}
				}
				if !ok {
					return false
				}
			}
		}
	}
	return found
}

func ssautilAllFunctions(prog *ssa.Program) map[*ssa.Function]bool {
	return ssautil.AllFunctions(prog)
}

// nondetScanResult: no other source of nondeterminism in the module's non-test code - goroutines,
// channels, select, wall-clock time, random numbers, the process environment.
func (e *Engine) nondetScanResult() *FuncResult {
	ctx := newCtx(e, e.anyFunction())
	ctx.fnKey = "nondeterminism-scan"
	res := &FuncResult{Key: "nondeterminism-scan", Ctx: ctx}
	var keys []string
	for k := range e.fnByKey {
		keys = append(keys, k)
	}
	sort.Strings(keys)
	// reflect's map iteration is the range-over-map of reflective code: keys come back in no fixed order
	banned := map[string]bool{"time.Now": true, "time.Since": true, "os.Getenv": true, "os.Environ": true, "os.LookupEnv": true, "os.Getpid": true, "os.Hostname": true,
		"reflect.Value.MapKeys": true, "reflect.Value.MapRange": true, "reflect.(*MapIter).Next": true, "maps.Keys": true, "maps.Values": true, "maps.All": true,
		"golang.org/x/exp/maps.Keys": true, "golang.org/x/exp/maps.Values": true}
	nfn := 0
	for _, k := range keys {
		fn := e.fnByKey[k]
		if !e.inModule(fn) || fn.Synthetic != "" {
			continue
		}
		root := fn
		for root.Parent() != nil {
			root = root.Parent()
		}
		if root.Pkg != nil && (root.Pkg.Pkg.Name() == "main" || root.Pkg.Pkg.Name() == "testutils" || root.Pkg.Pkg.Name() == "envvars") {
			continue
		}
		nfn++
		var bad []string
		for _, b := range fn.Blocks {
			for _, in := range b.Instrs {
				switch x := in.(type) {
				case *ssa.Go:
					bad = append(bad, "go statement")
				case *ssa.Select:
					bad = append(bad, "select")
				case *ssa.Send, *ssa.MakeChan:
					bad = append(bad, "channel operation")
				case ssa.CallInstruction:
					if sc := x.Common().StaticCallee(); sc != nil {
						n := fullName(sc)
						if banned[n] || strings.HasPrefix(n, "math/rand.") || strings.HasPrefix(n, "math/rand/v2.") || strings.HasPrefix(n, "crypto/rand.") {
							// keys collected in map order are fine when the very first thing done with them is a
							// sort by a total order (same rule as for the callers of tools.Keys)
							if c, isCall := in.(*ssa.Call); isCall && (n == "reflect.Value.MapKeys" || strings.HasSuffix(n, "maps.Keys")) && firstUseIsTotalSort(c) {
								continue
							}
							bad = append(bad, n)
						}
					}
				}
			}
		}
		if len(bad) > 0 {
			ctx.addOblig("scan", k+":no-nondeterminism-source", False, strings.Join(bad, ", "))
		}
	}
	ctx.addOblig("scan", "functions-scanned", BoolLit(nfn > 0), fmt.Sprint(nfn))
	ctx.trusted[fmt.Sprintf("scan of %d functions: no goroutine, channel, select, time.Now, math/rand, os.Getenv, reflective or library map iteration (reflect.Value.MapKeys/MapRange, maps.Keys/Values/All) in cog's non-test code", nfn)] = true
	res.Obligs = ctx.obligs
	return res
}

// newSitesResult: every range-over-map site of the pipeline code is accounted for in
// obligations.lock, either as claimed ("C03 <site>") or as known ("C03-known <site> <class>").
func (e *Engine) newSitesResult() *FuncResult {
	ctx := newCtx(e, e.anyFunction())
	ctx.fnKey = "map-range-sites"
	res := &FuncResult{Key: "map-range-sites", Ctx: ctx}
	known := map[string]bool{}
	lockPath := filepath.Join(verifRoot(), "obligations.lock")
	for _, l := range loadLock(lockPath, "C03") {
		known[l] = true
	}
	for _, l := range loadLock(lockPath, "C03-known") {
		if f := strings.Fields(l); len(f) > 0 {
			known[f[0]] = true
		}
	}
	for _, l := range loadLock(lockPath, "C03-keyed") {
		if f := strings.Fields(l); len(f) > 0 {
			known[f[0]] = true
		}
	}
	for _, l := range loadLock(lockPath, "C03-sorted") {
		if f := strings.Fields(l); len(f) > 0 {
			known[f[0]] = true
		}
	}
	n := 0
	for _, s := range e.mapRangeSites() {
		if s.Root.Pkg != nil {
			switch s.Root.Pkg.Pkg.Name() {
			case "main", "testutils":
				continue
			}
		}
		n++
		if !known[s.Name] {
			ctx.addOblig("commute", s.Name+":site-is-classified", False, s.Pos)
		}
	}
	ctx.addOblig("scan", "map-range-sites-enumerated", BoolLit(n > 0), fmt.Sprint(n))
	res.Obligs = ctx.obligs
	return res
}

// isTotalOrderSort: the call sorts its slice argument by an order that is total on the elements, so that
// the result does not depend on the order the elements arrived in: sort.Strings / sort.Ints / slices.Sort,
// or sort.Slice / sort.SliceStable whose comparison closure is exactly `xs[i] < xs[j]` (or >) on the
// elements of one slice. A comparison through a derived key (mapping[xs[i]], xs[i].Name) may tie on
// distinct elements: ties keep their arrival order (SliceStable) or an unspecified one (Slice).
func isTotalOrderSort(c *ssa.CallCommon) bool {
	sc := c.StaticCallee()
	if sc == nil {
		return false
	}
	n := fullName(sc)
	if o := sc.Origin(); o != nil {
		n = fullName(o)
	}
	switch n {
	case "sort.Strings", "sort.Ints", "sort.Float64s", "slices.Sort":
		return true
	case "sort.Slice", "sort.SliceStable":
		if len(c.Args) != 2 {
			return false
		}
		return comparesElementsDirectly(c.Args[1])
	}
	return false
}

// comparesElementsDirectly: the function value is a closure literal whose body is `return s[i] < s[j]`
// (or >) with s one captured slice variable and i, j its two parameters.
func comparesElementsDirectly(v ssa.Value) bool {
	var fn *ssa.Function
	switch x := v.(type) {
	case *ssa.MakeClosure:
		fn, _ = x.Fn.(*ssa.Function)
	case *ssa.Function:
		fn = x
	}
	if fn == nil || len(fn.Params) != 2 {
		return false
	}
	var ret *ssa.Return
	n := 0
	for _, b := range fn.Blocks {
		for _, in := range b.Instrs {
			switch x := in.(type) {
			case *ssa.Return:
				ret = x
				n++
			case *ssa.If, *ssa.Jump, *ssa.Call, *ssa.Store, *ssa.MapUpdate, *ssa.Lookup:
				return false
			}
		}
	}
	if n != 1 || len(ret.Results) != 1 {
		return false
	}
	cmp, ok := ret.Results[0].(*ssa.BinOp)
	if !ok || (cmp.Op.String() != "<" && cmp.Op.String() != ">") {
		return false
	}
	elem := func(v ssa.Value) (src ssa.Value, idx ssa.Value, ok bool) {
		ld, isLd := v.(*ssa.UnOp)
		if !isLd {
			return nil, nil, false
		}
		ia, isIA := ld.X.(*ssa.IndexAddr)
		if !isIA {
			return nil, nil, false
		}
		s := ia.X
		if sl, isL := s.(*ssa.UnOp); isL {
			s = sl.X // the captured variable's cell
		}
		return s, ia.Index, true
	}
	s1, i1, ok1 := elem(cmp.X)
	s2, i2, ok2 := elem(cmp.Y)
	if !ok1 || !ok2 || s1 != s2 {
		return false
	}
	if _, isFV := s1.(*ssa.FreeVar); !isFV {
		return false
	}
	return (i1 == ssa.Value(fn.Params[0]) && i2 == ssa.Value(fn.Params[1])) || (i1 == ssa.Value(fn.Params[1]) && i2 == ssa.Value(fn.Params[0]))
}

// mapOrderHelpers: module functions that return a slice collected in map iteration order as it is
// (tools.Keys): the obligation to sort lies with every caller.
func (e *Engine) mapOrderHelpers() map[*ssa.Function]bool {
	out := map[*ssa.Function]bool{}
	for _, s := range e.mapRangeSites() {
		fn := s.Fn
		f := &Frame{ctx: newCtx(e, fn), fn: fn, tmap: TMap{}, vals: map[ssa.Value]Val{}}
		f.analyzeLoops()
		var header *ssa.BasicBlock
		for _, b := range fn.Blocks {
			for _, in := range b.Instrs {
				if nx, ok := in.(*ssa.Next); ok && nx.Iter == ssa.Value(s.Range) {
					header = b
				}
			}
		}
		li := f.loops[header]
		if header == nil || li == nil {
			continue
		}
		for ph := range collectedSlices(header, li) {
			all, any := true, false
			for _, ref := range *ph.Referrers() {
				if _, isDbg := ref.(*ssa.DebugRef); isDbg {
					continue
				}
				if li.body[ref.Block()] {
					continue
				}
				any = true
				if _, isRet := ref.(*ssa.Return); !isRet {
					all = false
				}
			}
			if all && any {
				out[fn] = true
			}
		}
	}
	return out
}

// helperCallersResult: one obligation per call of a map-order helper in the pipeline code: the first
// thing done with the result is a sort by a total order on its elements.
func (e *Engine) helperCallersResult() *FuncResult {
	ctx := newCtx(e, e.anyFunction())
	ctx.fnKey = "map-order-helper-callers"
	res := &FuncResult{Key: "map-order-helper-callers", Ctx: ctx}
	helpers := e.mapOrderHelpers()
	var keys []string
	for k := range e.fnByKey {
		keys = append(keys, k)
	}
	sort.Strings(keys)
	n := 0
	for _, k := range keys {
		fn := e.fnByKey[k]
		if !e.inModule(fn) || fn.Synthetic != "" {
			continue
		}
		root := fn
		for root.Parent() != nil {
			root = root.Parent()
		}
		if root.Pkg != nil {
			switch root.Pkg.Pkg.Name() {
			case "main", "testutils":
				continue
			}
		}
		if root.Pkg != nil && strings.Contains(root.Pkg.Pkg.Path(), "/cmd/") {
			continue // command-line front ends: messages, not generated output
		}
		ord := 0
		for _, b := range fn.Blocks {
			for _, in := range b.Instrs {
				call, ok := in.(*ssa.Call)
				if !ok {
					continue
				}
				sc := call.Call.StaticCallee()
				if sc == nil {
					continue
				}
				if o := sc.Origin(); o != nil {
					sc = o
				}
				if !helpers[sc] {
					continue
				}
				n++
				name := fmt.Sprintf("%s:%s%d:result-in-map-order-is-sorted-by-a-total-order-before-use", k, sc.Name(), ord)
				ord++
				pos := e.prog.Fset.Position(call.Pos())
				ctx.addOblig("commute", name, BoolLit(firstUseIsTotalSort(call)), fmt.Sprintf("%s:%d", shortPath(pos.Filename), pos.Line))
			}
		}
	}
	ctx.addOblig("scan", "map-order-helpers-enumerated", BoolLit(len(helpers) > 0), fmt.Sprintf("%d helpers, %d call sites", len(helpers), n))
	res.Obligs = ctx.obligs
	return res
}

// firstUseIsTotalSort: the value (or the variable it is stored into) is handed to a total-order sort
// before anything else reads it.
func firstUseIsTotalSort(v ssa.Value) bool {
	refs := v.Referrers()
	if refs == nil {
		return false
	}
	var uses []ssa.Instruction
	for _, r := range *refs {
		if _, isDbg := r.(*ssa.DebugRef); isDbg {
			continue
		}
		uses = append(uses, r)
	}
	if len(uses) == 0 {
		return true // result unused
	}
	// stored into a (captured) variable first: look at the loads of that variable
	if len(uses) == 1 {
		if st, isSt := uses[0].(*ssa.Store); isSt {
			if a, isA := st.Addr.(*ssa.Alloc); isA {
				var first ssa.Instruction
				for _, b := range a.Parent().Blocks {
					for _, in := range b.Instrs {
						if ld, isLd := in.(*ssa.UnOp); isLd && ld.X == ssa.Value(a) && first == nil && b == st.Block() {
							first = in
						}
					}
				}
				if ld, ok := first.(*ssa.UnOp); ok {
					return firstUseIsTotalSort(ld)
				}
				return false
			}
		}
	}
	first := uses[0]
	for _, u := range uses[1:] {
		if u.Block() == first.Block() {
			for _, in := range u.Block().Instrs {
				if in == u {
					first = u
					break
				}
				if in == first {
					break
				}
			}
		} else if u.Block().Dominates(first.Block()) {
			first = u
		}
	}
	switch x := first.(type) {
	case *ssa.Call:
		return isTotalOrderSort(&x.Call)
	case *ssa.MakeInterface:
		for _, r2 := range *x.Referrers() {
			if c, isCall := r2.(*ssa.Call); isCall && isTotalOrderSort(&c.Call) {
				return true
			}
		}
	}
	return false
}

// keyedSitesResult: map-range sites of the form "one object per map key, stored under that key, the
// collection sorted afterwards" ("C03-keyed <site>" lines of the lock). Their order-independence rests on
// the stored name being the map key ITSELF: distinct iterations then write distinct entries. One structural
// obligation per site: every value stored into the Name field of an ast.Object built in the loop body is
// the range key, unmodified (a name derived from the key by a non-injective function - say a sanitised
// one - makes two keys collide and the survivor depends on iteration order).
func (e *Engine) keyedSitesResult() *FuncResult {
	ctx := newCtx(e, e.anyFunction())
	ctx.fnKey = "map-range-keyed-sites"
	res := &FuncResult{Key: "map-range-keyed-sites", Ctx: ctx}
	want := map[string]bool{}
	for _, l := range loadLock(filepath.Join(verifRoot(), "obligations.lock"), "C03-keyed") {
		if f := strings.Fields(l); len(f) > 0 {
			want[f[0]] = true
		}
	}
	for _, s := range e.mapRangeSites() {
		if !want[s.Name] {
			continue
		}
		delete(want, s.Name)
		fn := s.Fn
		f := &Frame{ctx: ctx, fn: fn, tmap: TMap{}, vals: map[ssa.Value]Val{}}
		f.analyzeLoops()
		var li *loopInfo
		var next *ssa.Next
		for _, b := range fn.Blocks {
			for _, in := range b.Instrs {
				if nx, ok := in.(*ssa.Next); ok && nx.Iter == ssa.Value(s.Range) {
					li, next = f.loops[b], nx
				}
			}
		}
		ok := li != nil
		n := 0
		if ok {
			isKey := func(v ssa.Value) bool {
				ex, isEx := v.(*ssa.Extract)
				return isEx && ex.Tuple == ssa.Value(next) && ex.Index == 1
			}
			for b := range li.body {
				for _, in := range b.Instrs {
					st, isSt := in.(*ssa.Store)
					if !isSt {
						continue
					}
					fa, isFA := st.Addr.(*ssa.FieldAddr)
					if !isFA {
						continue
					}
					pt, isP := fa.X.Type().Underlying().(*types.Pointer)
					if !isP {
						continue
					}
					nt, isN := pt.Elem().(*types.Named)
					if !isN || nt.Obj().Name() != "Object" {
						continue
					}
					if nt.Underlying().(*types.Struct).Field(fa.Field).Name() != "Name" {
						continue
					}
					n++
					if !isKey(st.Val) {
						ok = false
					}
				}
			}
			ok = ok && n > 0
		}
		ctx.addOblig("commute", s.Name+":each-object-is-stored-under-the-map-key-itself", BoolLit(ok), s.Pos)
	}
	for name := range want {
		_ = name // a keyed site that no longer exists as a map range cannot be order dependent any more
	}
	res.Obligs = ctx.obligs
	return res
}

// comparesFieldDirectly: the comparator is `return s[i].F < s[j].F` (or >) with s one captured slice
// variable, i and j its two parameters and F the named field - a total order on elements whose F values
// are pairwise distinct.
func comparesFieldDirectly(v ssa.Value, field string) bool {
	var fn *ssa.Function
	switch x := v.(type) {
	case *ssa.MakeClosure:
		fn, _ = x.Fn.(*ssa.Function)
	case *ssa.Function:
		fn = x
	}
	if fn == nil || len(fn.Params) != 2 {
		return false
	}
	var ret *ssa.Return
	n := 0
	for _, b := range fn.Blocks {
		for _, in := range b.Instrs {
			switch x := in.(type) {
			case *ssa.Return:
				ret = x
				n++
			case *ssa.If, *ssa.Jump, *ssa.Call, *ssa.Store, *ssa.MapUpdate, *ssa.Lookup:
				return false
			}
		}
	}
	if n != 1 || len(ret.Results) != 1 {
		return false
	}
	cmp, ok := ret.Results[0].(*ssa.BinOp)
	if !ok || (cmp.Op.String() != "<" && cmp.Op.String() != ">") {
		return false
	}
	elemField := func(v ssa.Value) (src ssa.Value, idx ssa.Value, ok bool) {
		ld, isLd := v.(*ssa.UnOp)
		if !isLd {
			return nil, nil, false
		}
		fa, isFA := ld.X.(*ssa.FieldAddr)
		if !isFA {
			return nil, nil, false
		}
		st, isSt := fa.X.Type().Underlying().(*types.Pointer).Elem().Underlying().(*types.Struct)
		if !isSt || st.Field(fa.Field).Name() != field {
			return nil, nil, false
		}
		ia, isIA := fa.X.(*ssa.IndexAddr)
		if !isIA {
			return nil, nil, false
		}
		s := ia.X
		if sl, isL := s.(*ssa.UnOp); isL {
			s = sl.X
		}
		return s, ia.Index, true
	}
	s1, i1, ok1 := elemField(cmp.X)
	s2, i2, ok2 := elemField(cmp.Y)
	if !ok1 || !ok2 || s1 != s2 {
		return false
	}
	if _, isFV := s1.(*ssa.FreeVar); !isFV {
		return false
	}
	return (i1 == ssa.Value(fn.Params[0]) && i2 == ssa.Value(fn.Params[1])) || (i1 == ssa.Value(fn.Params[1]) && i2 == ssa.Value(fn.Params[0]))
}

// sortedFieldSitesResult: map-range sites of the form "one struct field per map key, the fields sorted by
// name afterwards" ("C03-sorted <site> <field>" lines of the lock). Two structural obligations per site:
// every ast.NewStructField call of the loop body is named by the range key itself (distinct keys, distinct
// names), and every sort.Slice of the function orders by that very field with < or > and nothing else - a
// total order on the collected elements, so that the unstable sort has one possible outcome. (A comparator
// that folds case, or compares a derived key, ties on distinct names and leaves map order visible.)
func (e *Engine) sortedFieldSitesResult() *FuncResult {
	ctx := newCtx(e, e.anyFunction())
	ctx.fnKey = "map-range-sorted-field-sites"
	res := &FuncResult{Key: "map-range-sorted-field-sites", Ctx: ctx}
	want := map[string]string{}
	for _, l := range loadLock(filepath.Join(verifRoot(), "obligations.lock"), "C03-sorted") {
		if f := strings.Fields(l); len(f) >= 2 {
			want[f[0]] = f[1]
		}
	}
	for _, s := range e.mapRangeSites() {
		field, ok := want[s.Name]
		if !ok {
			continue
		}
		fn := s.Fn
		f := &Frame{ctx: ctx, fn: fn, tmap: TMap{}, vals: map[ssa.Value]Val{}}
		f.analyzeLoops()
		var li *loopInfo
		var next *ssa.Next
		for _, b := range fn.Blocks {
			for _, in := range b.Instrs {
				if nx, isNx := in.(*ssa.Next); isNx && nx.Iter == ssa.Value(s.Range) {
					li, next = f.loops[b], nx
				}
			}
		}
		named, calls := li != nil, 0
		if li != nil {
			for b := range li.body {
				for _, in := range b.Instrs {
					c, isC := in.(*ssa.Call)
					if !isC {
						continue
					}
					sc := c.Call.StaticCallee()
					if sc == nil || funcKey(sc) != "ast.NewStructField" || len(c.Call.Args) < 1 {
						continue
					}
					calls++
					ex, isEx := c.Call.Args[0].(*ssa.Extract)
					if !isEx || ex.Tuple != ssa.Value(next) || ex.Index != 1 {
						named = false
					}
				}
			}
		}
		ctx.addOblig("commute", s.Name+":each-field-is-named-by-the-map-key-itself", BoolLit(named && calls > 0), s.Pos)
		sorts, total := 0, true
		for _, b := range fn.Blocks {
			for _, in := range b.Instrs {
				c, isC := in.(*ssa.Call)
				if !isC {
					continue
				}
				sc := c.Call.StaticCallee()
				if sc == nil || sc.Pkg == nil || sc.Pkg.Pkg.Path() != "sort" || sc.Name() != "Slice" || len(c.Call.Args) != 2 {
					continue
				}
				sorts++
				if !comparesFieldDirectly(c.Call.Args[1], field) {
					total = false
				}
			}
		}
		ctx.addOblig("commute", s.Name+":collected-fields-are-sorted-by-a-total-order-on-"+field, BoolLit(sorts > 0 && total), s.Pos)
	}
	res.Obligs = ctx.obligs
	return res
}
