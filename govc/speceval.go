package main

// Evaluation of contract expressions into SMT terms over a (current, old) pair of states.

import (
	"fmt"
	"go/ast"
	"go/constant"
	"go/token"
	"go/types"
	"strings"

	"golang.org/x/tools/go/ssa"
)

type SVal struct {
	V Val
	T types.Type // nil for purely logical values
}

type specEnv struct {
	f        *Frame
	cur, old *State
	vars     map[string]SVal
	results  []SVal
	loop     *loopInfo
	lenv     *loopEnv
	pol      int // +1 assumed, -1 goal, 0 neutral
	positive bool
	site     string
	binders  []*Term
	depth    int
	wit      map[string]*SExpr
	witParam map[string]string
	presite  string
	witEnv   *specEnv // where call-site witnesses are evaluated (the caller), nil: this environment
	fns      map[string]func(arg *Term) *Term
	fnRes    map[string]types.Type
	specPkg  string   // a spec function body is evaluated in the vocabulary of its declaring package
	witSort  Sort     // result sort of the ghost function whose witness is being evaluated
	qfacts   *[]*Term // memory-model facts about references read under the innermost goal-position forall
}

func (f *Frame) specEnv(cur, old *State) *specEnv {
	se := &specEnv{f: f, cur: cur, old: old, vars: map[string]SVal{}}
	for k, v := range f.specVars {
		se.vars[k] = v
	}
	return se
}

func (se *specEnv) fork() *specEnv {
	n := *se
	n.vars = make(map[string]SVal, len(se.vars)+2)
	for k, v := range se.vars {
		n.vars[k] = v
	}
	return &n
}

type specErr struct{ msg string }

func (e specErr) Error() string { return "contract error: " + e.msg }

func sfail(format string, args ...interface{}) { panic(specErr{fmt.Sprintf(format, args...)}) }

func (se *specEnv) evalBool(e *SExpr) *Term {
	if se.positive {
		se.pol = 1
	} else {
		se.pol = -1
	}
	v := se.eval(e)
	t, ok := v.V.(*Term)
	if !ok || t.S != SBool {
		sfail("expected a boolean: %s", e)
	}
	return t
}

func (se *specEnv) term(e *SExpr) *Term {
	v := se.eval(e)
	return se.f.asTerm(v.V)
}

func (se *specEnv) withPol(p int, fn func() SVal) SVal {
	old := se.pol
	se.pol = p
	defer func() { se.pol = old }()
	return fn()
}

func hasQuant(e *SExpr) bool {
	if e == nil {
		return false
	}
	if e.Kind == SQuant {
		return true
	}
	if e.Kind == SCall {
		return true // spec functions may expand to quantifiers
	}
	for _, a := range e.Args {
		if hasQuant(a) {
			return true
		}
	}
	return false
}

func (se *specEnv) eval(e *SExpr) SVal {
	f := se.f
	switch e.Kind {
	case SIntLit:
		return SVal{IntLit(e.Int), types.Typ[types.Int]}
	case SBoolLit:
		return SVal{BoolLit(e.Bool), types.Typ[types.Bool]}
	case SStrLit:
		return SVal{f.ctx.strLit(e.Str), types.Typ[types.String]}
	case SNil:
		return SVal{nil, types.Typ[types.UntypedNil]}
	case SIdent:
		return se.ident(e.Name)
	case SUnary:
		switch e.Name {
		case "!":
			x := se.withPol(-se.pol, func() SVal { return se.eval(e.Args[0]) })
			return SVal{Not(x.V.(*Term)), types.Typ[types.Bool]}
		case "-":
			x := se.eval(e.Args[0])
			return SVal{Sub(IntLit(0), x.V.(*Term)), x.T}
		}
	case SBinary:
		return se.binary(e)
	case SField:
		if id := e.Args[0]; id.Kind == SIdent {
			if c := se.importedConst(id.Name, e.Name); c != nil {
				return se.constVal(c)
			}
		}
		x := se.eval(e.Args[0])
		return se.field(x, e.Name, e)
	case SIndex:
		x := se.eval(e.Args[0])
		i := se.eval(e.Args[1])
		return se.index(x, i, e)
	case SMethod:
		x := se.eval(e.Args[0])
		switch e.Name {
		case "has":
			k := se.eval(e.Args[1])
			mt, ok := f.subst(x.T).Underlying().(*types.Map)
			if !ok {
				sfail("has() on non-map %s", e)
			}
			_, found := f.mapRead(se.cur, mt, f.asTerm(x.V), se.coerce(k, mt.Key()))
			return SVal{found, types.Typ[types.Bool]}
		}
		sfail("unknown method %s in %s", e.Name, e)
	case SCall:
		return se.call(e)
	case SQuant:
		return se.quant(e)
	case SExistsFn:
		return se.existsFn(e)
	}
	sfail("cannot evaluate %s", e)
	return SVal{}
}

func (se *specEnv) coerce(v SVal, t types.Type) *Term {
	f := se.f
	if v.V == nil {
		return f.zero(t)
	}
	return f.asTerm(v.V)
}

func (se *specEnv) ident(name string) SVal {
	f := se.f
	if v, ok := se.vars[name]; ok {
		return v
	}
	if v, ok := f.ghosts[name]; ok {
		return v
	}
	if name == "result" {
		if len(se.results) == 0 {
			sfail("result used where no result is available")
		}
		if len(se.results) == 1 {
			return se.results[0]
		}
		var tv TupleVal
		for _, r := range se.results {
			tv = append(tv, r.V)
		}
		return SVal{tv, nil}
	}
	if al := f.ctx.eng.identAlias[f.top().ctx.fnKey]; al != nil {
		if to, ok := al[name]; ok {
			name = to
		}
	}
	if strings.HasPrefix(name, "$") && name != "$i" && name != "$outer" {
		if ac := f.letRegister(name[1:]); ac != nil {
			if ac.LetT == nil {
				// not evaluated yet (a loop head reached before the call): evaluate once in the entry state for its type
				te := f.top().specEnv(f.top().entry, f.top().entry)
				te.pol = 0
				v := te.eval(ac.Clause.Expr)
				if t, ok := v.V.(*Term); ok {
					ac.LetT, ac.LetS = v.T, t.S
				}
			}
			if ac.LetT != nil {
				return SVal{f.ctx.comp(se.cur, "$let!"+ac.Let, ac.LetS), ac.LetT}
			}
		}
	}
	// loop-carried values and locals by source name
	if se.lenv != nil {
		for ph, v := range se.lenv.phis {
			if ph.Comment == name || (name == "$i" && ph.Comment == "rangeindex") {
				return SVal{v, ph.Type()}
			}
		}
	}
	for _, p := range f.fn.Params {
		if p.Name() == name {
			return SVal{f.get(p), f.subst(p.Type())}
		}
	}
	for _, p := range f.fn.FreeVars {
		if p.Name() == name {
			// captured variables are pointers to cells
			l := f.asLoc(f.get(p), p.Type())
			return SVal{f.load(se.cur, l), f.subst(derefT(p.Type()))}
		}
	}
	// named locals (Allocs with a comment)
	for _, b := range f.fn.Blocks {
		for _, in := range b.Instrs {
			if a, ok := in.(*ssa.Alloc); ok && a.Comment == name {
				av, ok := f.vals[a]
				if !ok {
					continue
				}
				l := f.asLoc(av, a.Type())
				return SVal{f.load(se.cur, l), f.subst(derefT(a.Type()))}
			}
		}
	}
	// source-level locals through debug references
	if v, ok := se.debugRef(name); ok {
		return v
	}
	// phi by name anywhere (value at its definition)
	for _, b := range f.fn.Blocks {
		for _, in := range b.Instrs {
			if ph, ok := in.(*ssa.Phi); ok && ph.Comment == name {
				if v, ok := f.vals[ph]; ok {
					return SVal{v, ph.Type()}
				}
			}
		}
	}
	// package-level constants
	for _, pkg := range se.pkgs() {
		if obj := pkg.Scope().Lookup(name); obj != nil {
			if c, ok := obj.(*types.Const); ok {
				return se.constVal(c)
			}
		}
	}
	if name == "$outer" {
		// the range index of the (unique) loop of an enclosing activation that is being executed
		for pf := f.parent; pf != nil; pf = pf.parent {
			var found Val
			n := 0
			for _, b := range pf.fn.Blocks {
				for _, in := range b.Instrs {
					if ph, ok := in.(*ssa.Phi); ok && ph.Comment == "rangeindex" {
						if v, ok := pf.vals[ph]; ok {
							found = v
							n++
						}
					}
				}
			}
			if n == 1 {
				return SVal{found, types.Typ[types.Int]}
			}
			if n > 1 {
				sfail("$outer is ambiguous: several range loops in %s", funcKey(pf.fn))
			}
		}
		sfail("$outer: no enclosing activation is inside a range loop")
	}
	// an inlined activation: parameters, captured variables and ghosts of the enclosing activations
	for pf := f.parent; pf != nil; pf = pf.parent {
		if v, ok := pf.ghosts[name]; ok {
			return v
		}
		for _, p := range pf.fn.Params {
			if p.Name() == name {
				return SVal{pf.get(p), pf.subst(p.Type())}
			}
		}
		for _, p := range pf.fn.FreeVars {
			if p.Name() == name {
				l := pf.asLoc(pf.get(p), p.Type())
				return SVal{pf.load(se.cur, l), pf.subst(derefT(p.Type()))}
			}
		}
		for _, b := range pf.fn.Blocks {
			for _, in := range b.Instrs {
				if a, ok := in.(*ssa.Alloc); ok && a.Comment == name {
					if av, ok := pf.vals[a]; ok {
						l := pf.asLoc(av, a.Type())
						return SVal{pf.load(se.cur, l), pf.subst(derefT(a.Type()))}
					}
				}
			}
		}
	}
	sfail("unknown identifier %q in contract of %s", name, funcKey(f.fn))
	return SVal{}
}

// debugRef resolves a local variable name through go/ssa DebugRef instructions. All references that
// have a value in the current activation must agree, otherwise the name is ambiguous at this point.
func (se *specEnv) debugRef(name string) (SVal, bool) {
	f := se.f
	var found *ssa.DebugRef
	var val Val
	for _, b := range f.fn.Blocks {
		for _, in := range b.Instrs {
			dr, ok := in.(*ssa.DebugRef)
			if !ok {
				continue
			}
			id, ok := dr.Expr.(*ast.Ident)
			if !ok || id.Name != name {
				continue
			}
			v, ok := f.vals[dr.X]
			if !ok {
				if c, isConst := dr.X.(*ssa.Const); isConst {
					v = f.constVal(c)
				} else {
					continue
				}
			}
			if found != nil && dr.X != found.X {
				if t1, ok1 := v.(*Term); ok1 {
					if t2, ok2 := val.(*Term); ok2 && termEq(t1, t2) {
						continue
					}
				}
				sfail("local %q is ambiguous here (several SSA values); name a loop-carried variable or parameter instead", name)
			}
			found, val = dr, v
		}
	}
	if found == nil {
		return SVal{}, false
	}
	if found.IsAddr {
		l := f.asLoc(val, found.X.Type())
		return SVal{f.load(se.cur, l), f.subst(derefT(found.X.Type()))}, true
	}
	return SVal{val, f.subst(found.X.Type())}, true
}

// importedConst resolves pkg.Name to a constant of an imported package (unless pkg is shadowed).
func (se *specEnv) importedConst(pkgName, name string) *types.Const {
	if _, shadowed := se.vars[pkgName]; shadowed {
		return nil
	}
	for _, p := range se.f.fn.Params {
		if p.Name() == pkgName {
			return nil
		}
	}
	pkg := se.pkg()
	if pkg == nil {
		return nil
	}
	for _, imp := range pkg.Imports() {
		if imp.Name() == pkgName {
			if c, ok := imp.Scope().Lookup(name).(*types.Const); ok {
				return c
			}
		}
	}
	return nil
}

// pkgs: the package of this activation's function, then those of the enclosing activations (an
// invariant supplied by the caller's contract for an inlined loop is written in the caller's vocabulary).
func (se *specEnv) pkgs() []*types.Package {
	var out []*types.Package
	if se.specPkg != "" {
		for _, pk := range se.f.ctx.eng.pkgs {
			if pk.Types != nil && pkgID(pk.Types) == se.specPkg {
				out = append(out, pk.Types)
			}
		}
	}
	if p := se.pkg(); p != nil {
		out = append(out, p)
	}
	for pf := se.f.parent; pf != nil; pf = pf.parent {
		n := *se
		n.f = pf
		if p := n.pkg(); p != nil {
			out = append(out, p)
		}
	}
	return out
}

func (se *specEnv) pkg() *types.Package {
	fn := se.f.fn
	for fn.Parent() != nil {
		fn = fn.Parent()
	}
	if fn.Pkg != nil {
		return fn.Pkg.Pkg
	}
	if fn.Object() != nil {
		return fn.Object().Pkg()
	}
	return nil
}

func (se *specEnv) constVal(c *types.Const) SVal {
	f := se.f
	switch c.Val().Kind() {
	case constant.String:
		return SVal{f.ctx.strLit(constant.StringVal(c.Val())), c.Type()}
	case constant.Int:
		i, _ := constant.Int64Val(c.Val())
		return SVal{IntLit(i), c.Type()}
	case constant.Bool:
		return SVal{BoolLit(constant.BoolVal(c.Val())), c.Type()}
	}
	sfail("unsupported constant %s", c.Name())
	return SVal{}
}

func (se *specEnv) binary(e *SExpr) SVal {
	f := se.f
	tb := types.Typ[types.Bool]
	switch e.Name {
	case "&&":
		a := se.eval(e.Args[0]).V.(*Term)
		b := se.eval(e.Args[1]).V.(*Term)
		return SVal{And(a, b), tb}
	case "||":
		a := se.eval(e.Args[0]).V.(*Term)
		b := se.eval(e.Args[1]).V.(*Term)
		return SVal{Or(a, b), tb}
	case "==>":
		a := se.withPol(-se.pol, func() SVal { return se.eval(e.Args[0]) }).V.(*Term)
		b := se.eval(e.Args[1]).V.(*Term)
		return SVal{Implies(a, b), tb}
	case "<==>":
		a := se.withPol(0, func() SVal { return se.eval(e.Args[0]) }).V.(*Term)
		b := se.withPol(0, func() SVal { return se.eval(e.Args[1]) }).V.(*Term)
		return SVal{Eq(a, b), tb}
	case "==", "!=":
		pol := se.pol
		if hasQuant(e.Args[0]) || hasQuant(e.Args[1]) {
			pol = 0
		}
		a := se.withPol(pol, func() SVal { return se.eval(e.Args[0]) })
		b := se.withPol(pol, func() SVal { return se.eval(e.Args[1]) })
		var at, bt *Term
		switch {
		case a.V == nil && b.V == nil:
			return SVal{BoolLit(e.Name == "=="), tb}
		case a.V == nil:
			bt = f.asTerm(b.V)
			at = se.nilOf(b.T, bt)
			bt = se.nilCmpOperand(b.T, bt)
		case b.V == nil:
			at = f.asTerm(a.V)
			bt = se.nilOf(a.T, at)
			at = se.nilCmpOperand(a.T, at)
		default:
			at, bt = f.asTerm(a.V), f.asTerm(b.V)
		}
		if at.S != bt.S {
			sfail("comparison of different sorts (%s vs %s) in %s", at.S, bt.S, e)
		}
		if e.Name == "==" {
			return SVal{Eq(at, bt), tb}
		}
		return SVal{Neq(at, bt), tb}
	case "<", "<=", ">", ">=":
		a, b := se.term(e.Args[0]), se.term(e.Args[1])
		if a.S == SStr {
			switch e.Name {
			case "<":
				return SVal{f.ctx.uf("strlt", SBool, a, b), tb}
			case ">":
				return SVal{f.ctx.uf("strlt", SBool, b, a), tb}
			case "<=":
				return SVal{Not(f.ctx.uf("strlt", SBool, b, a)), tb}
			default:
				return SVal{Not(f.ctx.uf("strlt", SBool, a, b)), tb}
			}
		}
		return SVal{cmpOp(e.Name, a, b), tb}
	case "+":
		a, b := se.eval(e.Args[0]), se.eval(e.Args[1])
		at, bt := f.asTerm(a.V), f.asTerm(b.V)
		if at.S == SStr {
			return SVal{f.ctx.uf("strcat", SStr, at, bt), a.T}
		}
		return SVal{Add(at, bt), a.T}
	case "-":
		a := se.eval(e.Args[0])
		return SVal{Sub(f.asTerm(a.V), se.term(e.Args[1])), a.T}
	case "*":
		a := se.eval(e.Args[0])
		return SVal{Mul(f.asTerm(a.V), se.term(e.Args[1])), a.T}
	}
	sfail("unknown operator %s", e.Name)
	return SVal{}
}

// nil comparisons: slices compare their base, everything else the whole value.
func (se *specEnv) nilCmpOperand(t types.Type, v *Term) *Term {
	if t != nil {
		if _, ok := se.f.subst(t).Underlying().(*types.Slice); ok {
			return SlcBase(v)
		}
	}
	return v
}

func (se *specEnv) nilOf(t types.Type, v *Term) *Term {
	if t != nil {
		if _, ok := se.f.subst(t).Underlying().(*types.Slice); ok {
			return IntLit(0)
		}
	}
	switch v.S {
	case SInt:
		return IntLit(0)
	case SAny:
		return Atom("anynil", SAny)
	case SSlc:
		return IntLit(0)
	}
	sfail("nil comparison at sort %s", v.S)
	return nil
}

func (se *specEnv) field(x SVal, name string, e *SExpr) SVal {
	f := se.f
	if tv, ok := x.V.(TupleVal); ok {
		var i int
		if _, err := fmt.Sscanf(name, "%d", &i); err != nil || i >= len(tv) {
			sfail("bad tuple projection %s", e)
		}
		if tt, ok := x.T.(*types.Tuple); ok && i < tt.Len() {
			return SVal{tv[i], f.subst(tt.At(i).Type())}
		}
		if len(se.results) == len(tv) {
			return se.results[i]
		}
		return SVal{tv[i], nil}
	}
	if x.T == nil {
		sfail("field access on untyped value in %s", e)
	}
	t := f.subst(x.T)
	if lv, isLoc := x.V.(LocVal); isLoc {
		if p, ok := t.Underlying().(*types.Pointer); ok {
			if st, ok := p.Elem().Underlying().(*types.Struct); ok {
				si := f.structInfo(p.Elem())
				i := si.FieldIndex(name)
				if i < 0 {
					sfail("no field %s in %s (%s)", name, p.Elem(), e)
				}
				fl := lv.extend(pathElem{field: i, cont: p.Elem()}, st.Field(i).Type())
				return SVal{f.load(se.cur, fl), st.Field(i).Type()}
			}
		}
		sfail("field access through an interior pointer to a non-struct in %s", e)
	}
	if p, ok := t.Underlying().(*types.Pointer); ok {
		st, ok := p.Elem().Underlying().(*types.Struct)
		if !ok {
			sfail("field access through pointer to non-struct in %s", e)
		}
		si := f.structInfo(p.Elem())
		i := si.FieldIndex(name)
		if i < 0 {
			sfail("no field %s in %s (%s)", name, p.Elem(), e)
		}
		ref := f.asTerm(x.V)
		fv := f.readHeapField(se.cur, si, i, ref)
		se.refInv(fv, st.Field(i).Type())
		return SVal{fv, st.Field(i).Type()}
	}
	if st, ok := t.Underlying().(*types.Struct); ok {
		si := f.structInfo(t)
		i := si.FieldIndex(name)
		if i < 0 {
			sfail("no field %s in %s (%s)", name, t, e)
		}
		fv := si.Get(f.asTerm(x.V), i)
		if se.qfacts != nil {
			se.refInvBound(fv, st.Field(i).Type())
		}
		return SVal{fv, st.Field(i).Type()}
	}
	sfail("field access on %s in %s", t, e)
	return SVal{}
}

// refInv: a reference read from a state is allocated in that state (model invariant).
func (se *specEnv) refInv(v *Term, t types.Type) {
	if v.size > 14 {
		return
	}
	for _, b := range se.binders {
		if containsAtom(v, b.Op) {
			se.boundRefFact(v, t) // mentions a bound variable: the fact goes under the quantifier
			return
		}
	}
	for _, sv := range se.vars {
		if t, ok := sv.V.(*Term); ok && t.IsAtom() && strings.Contains(t.Op, "!q") && containsAtom(v, t.Op) {
			return
		}
	}
	switch se.f.subst(t).Underlying().(type) {
	case *types.Pointer, *types.Map, *types.Slice:
		se.f.assumeWf(se.cur, v, t)
	}
}

// refInvBound: boundRefFact for values that mention a binder in scope.
func (se *specEnv) refInvBound(v *Term, t types.Type) {
	for _, b := range se.binders {
		if containsAtom(v, b.Op) {
			se.boundRefFact(v, t)
			return
		}
	}
}

// boundRefFact: a reference read under goal-position binders is allocated in the state it was read
// from (in the entry state when it was read out of the entry heap). Collected by the enclosing forall.
func (se *specEnv) boundRefFact(v *Term, t types.Type) {
	if se.qfacts == nil || v.size > 40 {
		return
	}
	f := se.f
	st := se.cur
	if top := f.top(); top.entry != nil && isEntryTermB(v) {
		st = top.entry
	}
	switch f.subst(t).Underlying().(type) {
	case *types.Pointer, *types.Map:
		*se.qfacts = append(*se.qfacts, And(Le(IntLit(0), v), Lt(v, st.alloc)))
	case *types.Slice:
		b := SlcBase(v)
		*se.qfacts = append(*se.qfacts, And(Le(IntLit(0), b), Lt(b, st.alloc), Le(IntLit(0), SlcOff(v)), Le(IntLit(0), SlcLen(v)), Le(SlcLen(v), SlcCap(v)), Implies(Eq(b, IntLit(0)), Eq(SlcCap(v), IntLit(0)))))
	}
}

// isEntryTermB: isEntryTerm, with bound variables allowed as indices.
func isEntryTermB(t *Term) bool {
	if t.IsAtom() && strings.Contains(t.Op, "!q") {
		return true
	}
	if t.IsAtom() {
		return isEntryTerm(t)
	}
	switch {
	case t.Op == "select", t.Op == "slot", t.Op == "+", t.Op == "-", strings.HasPrefix(t.Op, "Slc!"), strings.HasPrefix(strings.Trim(t.Op, "|"), "S!"):
		for _, a := range t.Args {
			if !isEntryTermB(a) {
				return false
			}
		}
		return true
	}
	return false
}

// namedType: "int64", "float64", "bool", "string", "error" or "import/path.Name".
func (se *specEnv) namedType(name string) types.Type {
	switch name {
	case "int64", "float64", "bool", "string", "error", "int":
		return se.basicType(name)
	}
	dot := strings.LastIndex(name, ".")
	if dot < 0 {
		sfail("unknown type %q", name)
	}
	for _, pk := range se.f.ctx.eng.pkgs {
		if pk.Types == nil {
			continue
		}
		for _, imp := range pk.Types.Imports() {
			if imp.Path() == name[:dot] {
				if tn, ok := imp.Scope().Lookup(name[dot+1:]).(*types.TypeName); ok {
					return tn.Type()
				}
			}
		}
	}
	sfail("type %q not found among the imports of the loaded packages", name)
	return nil
}

func (se *specEnv) basicType(name string) types.Type {
	switch name {
	case "int64":
		return types.Typ[types.Int64]
	case "int":
		return types.Typ[types.Int]
	case "float64":
		return types.Typ[types.Float64]
	case "bool":
		return types.Typ[types.Bool]
	case "string":
		return types.Typ[types.String]
	case "error":
		return types.Universe.Lookup("error").Type()
	}
	sfail("unknown basic type %q", name)
	return nil
}

func (se *specEnv) index(x, i SVal, e *SExpr) SVal {
	f := se.f
	if x.T == nil {
		// raw SMT array (ghost)
		if xt, ok := x.V.(*Term); ok && strings.HasPrefix(string(xt.S), "(Array ") {
			return SVal{Select(xt, f.asTerm(i.V)), nil}
		}
		sfail("index on untyped value in %s", e)
	}
	t := f.subst(x.T)
	switch u := t.Underlying().(type) {
	case *types.Slice:
		s := f.asTerm(x.V)
		es := f.sortOf(u.Elem())
		E := f.ctx.comp(se.cur, f.eName(u.Elem()), ArrS(SInt, ArrS(SInt, es)))
		ev := Select(Select(E, SlcBase(s)), Slot(SlcOff(s), f.asTerm(i.V)))
		if se.qfacts != nil {
			se.refInvBound(ev, u.Elem())
		}
		return SVal{ev, u.Elem()}
	case *types.Map:
		val, _ := f.mapRead(se.cur, u, f.asTerm(x.V), se.coerce(i, u.Key()))
		return SVal{val, u.Elem()}
	case *types.Array:
		return SVal{Select(f.asTerm(x.V), f.asTerm(i.V)), u.Elem()}
	case *types.Basic:
		return SVal{f.ctx.uf("strat", SInt, f.asTerm(x.V), f.asTerm(i.V)), types.Typ[types.Int]}
	}
	sfail("index on %s in %s", t, e)
	return SVal{}
}

func (se *specEnv) call(e *SExpr) SVal {
	f := se.f
	tb := types.Typ[types.Bool]
	ti := types.Typ[types.Int]
	switch e.Name {
	case "old":
		n := se.fork()
		n.cur = se.old
		n.lenv = nil // old() of a loop-carried name is meaningless; parameters keep entry values
		n.pol = se.pol
		return n.eval(e.Args[0])
	case "len", "cap":
		x := se.eval(e.Args[0])
		t := f.subst(x.T)
		v := f.asTerm(x.V)
		switch u := t.Underlying().(type) {
		case *types.Slice:
			f.assumeSlcShape(v)
			if e.Name == "len" {
				return SVal{SlcLen(v), ti}
			}
			return SVal{SlcCap(v), ti}
		case *types.Basic:
			return SVal{f.ctx.uf("strlen", SInt, v), ti}
		case *types.Map:
			ks := f.sortOf(u.Key())
			D := f.ctx.comp(se.cur, f.mdName(u.Key(), u.Elem()), ArrS(SInt, ArrS(ks, SBool)))
			c := f.ctx.uf("card!"+trimSort(ks), SInt, Select(D, v))
			return SVal{Ite(Eq(v, IntLit(0)), IntLit(0), c), ti}
		case *types.Array:
			return SVal{IntLit(u.Len()), ti}
		}
		sfail("len of %s", t)
	case "base":
		x := se.eval(e.Args[0])
		return SVal{SlcBase(f.asTerm(x.V)), ti}
	case "off":
		x := se.eval(e.Args[0])
		return SVal{SlcOff(f.asTerm(x.V)), ti}
	case "fresh":
		x := se.eval(e.Args[0])
		v := f.asTerm(x.V)
		if v.S == SSlc {
			v = SlcBase(v)
		}
		return SVal{Ge(v, se.old.alloc), tb}
	case "own":
		x := se.eval(e.Args[0])
		v := f.asTerm(x.V)
		if v.S == SSlc {
			v = SlcBase(v)
		}
		if !f.top().trackOwn {
			return SVal{Or(Eq(v, IntLit(0)), f.isFresh(v)), tb}
		}
		return SVal{Or(Eq(v, IntLit(0)), f.isOwn(se.cur, v)), tb}
	case "copyrel":
		x, y := se.eval(e.Args[0]), se.eval(e.Args[1])
		if x.T == nil {
			sfail("copyrel needs typed arguments in %s", e)
		}
		return SVal{f.copyRel(x.T, f.asTerm(x.V), f.asTerm(y.V), f.top().entry, se.cur, false, 1), tb}
	case "allocated":
		x := se.eval(e.Args[0])
		v := f.asTerm(x.V)
		if v.S == SSlc {
			v = SlcBase(v)
		}
		return SVal{And(Le(IntLit(0), v), Lt(v, se.cur.alloc)), tb}
	case "b2i":
		c := se.withPol(0, func() SVal { return se.eval(e.Args[0]) }).V.(*Term)
		return SVal{Ite(c, IntLit(1), IntLit(0)), ti}
	case "ite":
		c := se.withPol(0, func() SVal { return se.eval(e.Args[0]) }).V.(*Term)
		a, b := se.eval(e.Args[1]), se.eval(e.Args[2])
		return SVal{Ite(c, f.asTerm(a.V), f.asTerm(b.V)), a.T}
	case "visited":
		k := se.eval(e.Args[0])
		var vis *Term
		if se.lenv != nil {
			for _, v := range se.lenv.visited {
				vis = v
			}
		}
		if vis == nil {
			for _, v := range f.visited {
				vis = v
			}
		}
		if vis == nil {
			sfail("visited() outside a map range loop")
		}
		return SVal{Select(vis, f.asTerm(k.V)), tb}
	case "skolem":
		// skolem("label", "site", args...) refers to a skolem function introduced for a named existential
		label, site := e.Args[0].Str, e.Args[1].Str
		var args []*Term
		for _, a := range e.Args[2:] {
			args = append(args, se.term(a))
		}
		if site == "pre" && se.f.presiteName != "" {
			site = se.f.presiteName
		} else if site == "pre" && se.presite != "" {
			site = se.presite
		}
		if site == "entry" {
			site = "pre" // the preconditions of the function under verification, also from inside an inlined callee
		}
		if site == "last" {
			// the most recently introduced skolem function with this label and arity
			sks := f.ctx.skolems[label]
			for i := len(sks) - 1; i >= 0; i-- {
				if sk := sks[i]; len(sk.sorts) == len(args) {
					if len(args) == 0 {
						return SVal{Atom(sk.name, sk.res), nil}
					}
					return SVal{App(sk.name, sk.res, args...), nil}
				}
			}
		}
		for _, sk := range f.ctx.skolems[label] {
			if sk.site == site && len(sk.sorts) == len(args) {
				if len(args) == 0 {
					return SVal{Atom(sk.name, sk.res), nil}
				}
				return SVal{App(sk.name, sk.res, args...), nil}
			}
		}
		if se.witSort != "" {
			// inside a witness (e.g. a loop invariant checked on entry, before the loop-head skolem
			// exists): any function will do as a candidate - an uninterpreted one
			var sorts []Sort
			for _, a := range args {
				sorts = append(sorts, a.S)
			}
			name := f.ctx.declFun(fmt.Sprintf("sk!%s!none!%d", label, len(args)), sorts, se.witSort)
			return SVal{App(name, se.witSort, args...), nil}
		}
		sfail("no skolem function %s@%s", label, site)
	case "call":
		// call("pkg.Func", args...): the value of a pure function in the current state
		key := e.Args[0].Str
		target := f.ctx.eng.fnByKey[key]
		if target == nil {
			sfail("call: unknown function %q", key)
		}
		ct := f.ctx.eng.contractFor(target)
		if ct == nil || !ct.Pure {
			sfail("call: %s has no `pure` contract", key)
		}
		var args []Val
		for _, a := range e.Args[1:] {
			args = append(args, se.eval(a).V)
		}
		v, ok := f.pureCall(se.cur, True, target, TMap{}, ct, args, token.NoPos)
		if !ok {
			sfail("call: %s cannot be treated as pure here", key)
		}
		if tv, isT := v.(TupleVal); isT {
			return SVal{tv, target.Signature.Results()}
		}
		return SVal{v, target.Signature.Results().At(0).Type()}
	case "with":
		// with(x, "Field", v): the struct value x with one field replaced
		if len(e.Args) != 3 {
			sfail("with(x, \"Field\", v) takes three arguments")
		}
		x := se.eval(e.Args[0])
		if x.T == nil {
			sfail("with() on an untyped value")
		}
		xt := f.subst(x.T)
		st, ok := xt.Underlying().(*types.Struct)
		if !ok {
			sfail("with() on a non-struct value %s", xt)
		}
		si := f.structInfo(xt)
		fi := si.FieldIndex(e.Args[1].Str)
		if fi < 0 {
			sfail("with(): no field %s in %s", e.Args[1].Str, xt)
		}
		v := se.eval(e.Args[2])
		xv := f.asTerm(x.V)
		var parts []*Term
		for i := 0; i < st.NumFields(); i++ {
			if i == fi {
				parts = append(parts, se.coerce(v, st.Field(i).Type()))
			} else {
				parts = append(parts, si.Get(xv, i))
			}
		}
		return SVal{si.Mk(parts), x.T}
	case "apply":
		// apply(fn, args...): the result of calling a value of a `pure` function type
		fv := se.eval(e.Args[0])
		if fv.T == nil {
			sfail("apply: untyped function value")
		}
		ftKey, nt := functypeKey(f.subst(fv.T))
		if nt == nil {
			sfail("apply: %s is not a value of a named function type", e.Args[0])
		}
		ct := f.ctx.eng.contracts.Funcs[ftKey]
		if ct == nil || !ct.Pure {
			sfail("apply: function type %s has no `pure` contract", ftKey)
		}
		var args []Val
		for _, a := range e.Args[1:] {
			args = append(args, se.eval(a).V)
		}
		sig := nt.Underlying().(*types.Signature)
		v := f.applyFnValue(ct, sig, f.asTerm(fv.V), args)
		if tv, isT := v.(TupleVal); isT {
			return SVal{tv, sig.Results()}
		}
		return SVal{v, sig.Results().At(0).Type()}
	case "extern":
		// extern("path.Func", i, "type", args...): result i (of the named Go type) of a library function that is
		// modelled as a deterministic function of its scalar arguments
		if len(e.Args) < 3 {
			sfail("extern(name, index, type, args...)")
		}
		name := "ext!" + e.Args[0].Str + "!" + e.Args[1].String()
		rt := se.basicType(e.Args[2].Str)
		var ts []*Term
		for _, a := range e.Args[3:] {
			ts = append(ts, se.term(a))
		}
		return SVal{f.ctx.uf(name, f.sortOf(rt), ts...), rt}
	case "unbox":
		// unbox(x, "T"): the value of dynamic type T held by the interface value x
		x := se.eval(e.Args[0])
		tt := se.namedType(e.Args[1].Str)
		id := f.ctx.eng.sorts.TypeID(tt)
		return SVal{f.ctx.uf(fmt.Sprintf("unbox!%d", id), f.sortOf(tt), f.asTerm(x.V)), tt}
	case "box":
		// box(v, "T"): the interface value holding v with dynamic type T
		v := se.eval(e.Args[0])
		tt := se.namedType(e.Args[1].Str)
		return SVal{f.box(f.asTerm(v.V), tt), types.NewInterfaceType(nil, nil)}
	case "ncalls":
		// ncalls("pkg.F"): how many calls to the `traced` function F have completed (ghost counter)
		key := e.Args[0].Str
		target := f.ctx.eng.fnByKey[key]
		if target == nil {
			sfail("ncalls: unknown function %q", key)
		}
		if ct := f.ctx.eng.contractFor(target); ct == nil || !ct.Traced {
			sfail("ncalls: %s is not declared `traced`", key)
		}
		return SVal{f.ctx.comp(se.cur, "$ncalls!"+key, SInt), ti}
	case "returned":
		// returned("pkg.F", args..., results...): a call to the `traced` function F with these arguments completed
		// and returned these results, on the way here
		key := e.Args[0].Str
		target := f.ctx.eng.fnByKey[key]
		if target == nil {
			sfail("returned: unknown function %q", key)
		}
		if ct := f.ctx.eng.contractFor(target); ct == nil || !ct.Traced {
			sfail("returned: %s is not declared `traced`", key)
		}
		var ts []*Term
		for _, a := range e.Args[1:] {
			ts = append(ts, se.term(a))
		}
		return SVal{f.ctx.uf("returned!"+key, SBool, ts...), tb}
	case "dynreturned":
		// dynreturned(fn, args..., results...): a call through the function value fn with these arguments completed
		// and returned these results, on the way here
		var ts []*Term
		for _, a := range e.Args {
			ts = append(ts, se.term(a))
		}
		return SVal{f.ctx.uf(dynRetName(ts), SBool, ts...), tb}
	case "lastarg", "lastres":
		// lastarg("pkg.F", n) / lastres("pkg.F", n): argument / result n of the most recent completed call to the
		// `traced` function F (ghost registers; unknown code may have made further calls)
		key := e.Args[0].Str
		target := f.ctx.eng.fnByKey[key]
		if target == nil {
			sfail("%s: unknown function %q", e.Name, key)
		}
		if ct := f.ctx.eng.contractFor(target); ct == nil || !ct.Traced {
			sfail("%s: %s is not declared `traced`", e.Name, key)
		}
		n := int(e.Args[1].Int)
		sig := target.Signature
		var tt types.Type
		if e.Name == "lastres" {
			if n >= sig.Results().Len() {
				sfail("lastres: %s has %d results", key, sig.Results().Len())
			}
			tt = sig.Results().At(n).Type()
		} else {
			k := n
			if sig.Recv() != nil {
				if n == 0 {
					tt = sig.Recv().Type()
				}
				k = n - 1
			}
			if tt == nil {
				if k < 0 || k >= sig.Params().Len() {
					sfail("lastarg: %s has no argument %d", key, n)
				}
				tt = sig.Params().At(k).Type()
			}
		}
		tt = f.subst(tt)
		return SVal{f.ctx.comp(se.cur, fmt.Sprintf("$%s!%s!%d", e.Name, key, n), f.sortOf(tt)), tt}
	case "called":
		// called("pkg.F", args...): a call to the `traced` function F with these arguments was made on the way here
		key := e.Args[0].Str
		target := f.ctx.eng.fnByKey[key]
		if target == nil {
			sfail("called: unknown function %q", key)
		}
		if ct := f.ctx.eng.contractFor(target); ct == nil || !ct.Traced {
			sfail("called: %s is not declared `traced`", key)
		}
		var ts []*Term
		for _, a := range e.Args[1:] {
			ts = append(ts, se.term(a))
		}
		return SVal{f.ctx.uf("called!"+key, SBool, ts...), tb}
	case "hastype":
		// hastype(x, "int64" | "float64" | "bool" | "string" | "encoding/json.Number"): dynamic type of an interface value
		x := se.eval(e.Args[0])
		var tt types.Type
		switch name := e.Args[1].Str; name {
		case "int64":
			tt = types.Typ[types.Int64]
		case "float64":
			tt = types.Typ[types.Float64]
		case "bool":
			tt = types.Typ[types.Bool]
		case "string":
			tt = types.Typ[types.String]
		default:
			dot := strings.LastIndex(name, ".")
			if dot < 0 {
				sfail("hastype: unknown type %q", name)
			}
			for _, pk := range f.ctx.eng.pkgs {
				if pk.Types == nil {
					continue
				}
				for _, imp := range pk.Types.Imports() {
					if imp.Path() == name[:dot] {
						if tn, ok := imp.Scope().Lookup(name[dot+1:]).(*types.TypeName); ok {
							tt = tn.Type()
						}
					}
				}
			}
			if tt == nil {
				sfail("hastype: type %q not found among the imports of the loaded packages", name)
			}
		}
		id := f.ctx.eng.sorts.TypeID(tt)
		return SVal{Eq(App("typeof", SInt, f.asTerm(x.V)), IntLit(int64(id))), tb}
	case "isstring":
		// isstring(x): the dynamic type of the interface value x is string
		x := se.eval(e.Args[0])
		id := f.ctx.eng.sorts.TypeID(types.Typ[types.String])
		return SVal{Eq(App("typeof", SInt, f.asTerm(x.V)), IntLit(int64(id))), tb}
	case "typeid":
		x := se.eval(e.Args[0])
		return SVal{App("typeof", SInt, f.asTerm(x.V)), ti}
	case "eqfold":
		a, b := se.term(e.Args[0]), se.term(e.Args[1])
		return SVal{f.ctx.uf("eqfold", SBool, a, b), tb}
	}
	if fn, ok := se.fns[e.Name]; ok {
		if len(e.Args) != 1 {
			sfail("ghost function %s takes one argument", e.Name)
		}
		return SVal{fn(se.term(e.Args[0])), se.fnRes[e.Name]}
	}
	// spec functions
	sf := se.lookupSpecFunc(e.Name)
	if sf == nil {
		sfail("unknown function %s in contract", e.Name)
	}
	if len(sf.Params) != len(e.Args) {
		sfail("spec func %s expects %d arguments", sf.Name, len(sf.Params))
	}
	args := make([]SVal, len(e.Args))
	for i, a := range e.Args {
		args[i] = se.withPol(0, func() SVal { return se.eval(a) })
	}
	if sf.Body == nil {
		var ts []*Term
		for _, a := range args {
			ts = append(ts, f.asTerm(a.V))
		}
		rt := se.resolveType(sf.Result)
		return SVal{f.ctx.uf("spec!"+sf.Name, f.sortOf(rt), ts...), rt}
	}
	if se.depth > 20 {
		sfail("spec function recursion too deep (%s)", sf.Name)
	}
	n := se.fork()
	n.depth = se.depth + 1
	n.vars = map[string]SVal{}
	for i, p := range sf.Params {
		n.vars[p] = args[i]
	}
	n.lenv = nil
	n.specPkg = sf.Pkg
	if n.witEnv == nil {
		n.witEnv = se // witnesses are written in the vocabulary of the clause that uses the spec function
	}
	return n.eval(sf.Body)
}

func (se *specEnv) lookupSpecFunc(name string) *SpecFunc {
	cs := se.f.ctx.eng.contracts
	for _, pkg := range se.pkgs() {
		if sf, ok := cs.SpecFuncs[pkgID(pkg)+"."+name]; ok {
			return sf
		}
	}
	return cs.SpecFuncs[name]
}

func (se *specEnv) resolveType(text string) types.Type {
	f := se.f
	text = strings.TrimSpace(text)
	switch text {
	case "int":
		return types.Typ[types.Int]
	case "bool":
		return types.Typ[types.Bool]
	case "string":
		return types.Typ[types.String]
	case "any":
		return types.NewInterfaceType(nil, nil)
	}
	// type parameters of the enclosing function / receiver
	fn := f.fn
	for fn.Parent() != nil {
		fn = fn.Parent()
	}
	if tps := fn.TypeParams(); tps != nil {
		for i := 0; i < tps.Len(); i++ {
			if tps.At(i).Obj().Name() == text {
				return f.subst(tps.At(i))
			}
		}
	}
	if recv := fn.Signature.Recv(); recv != nil {
		rt := recv.Type()
		if p, ok := rt.(*types.Pointer); ok {
			rt = p.Elem()
		}
		if n, ok := rt.(*types.Named); ok && n.TypeParams() != nil {
			for i := 0; i < n.TypeParams().Len(); i++ {
				if n.TypeParams().At(i).Obj().Name() == text {
					return f.subst(n.TypeParams().At(i))
				}
			}
			if n.TypeArgs() != nil {
				for i := 0; i < n.TypeArgs().Len(); i++ {
					if tp, ok := n.TypeArgs().At(i).(*types.TypeParam); ok && tp.Obj().Name() == text {
						return f.subst(tp)
					}
				}
			}
		}
	}
	for _, sv := range se.vars {
		if sv.T == nil {
			continue
		}
		vt := f.subst(sv.T)
		if p, ok := vt.Underlying().(*types.Pointer); ok {
			vt = p.Elem()
		}
		if n, ok := types.Unalias(vt).(*types.Named); ok && n.TypeArgs() != nil && n.Origin().TypeParams() != nil {
			tps := n.Origin().TypeParams()
			for i := 0; i < tps.Len() && i < n.TypeArgs().Len(); i++ {
				if tps.At(i).Obj().Name() == text {
					return n.TypeArgs().At(i)
				}
			}
		}
	}
	if pkg := se.pkg(); pkg != nil {
		tv, err := types.Eval(f.ctx.eng.prog.Fset, pkg, token.NoPos, text)
		if err == nil && tv.Type != nil {
			return tv.Type
		}
	}
	sfail("cannot resolve type %q", text)
	return nil
}

var quantCounter int

func (se *specEnv) quant(e *SExpr) SVal {
	f := se.f
	tb := types.Typ[types.Bool]
	n := se.fork()
	var bound []*Term
	for _, b := range e.Binders {
		t := se.resolveType(b.Type)
		quantCounter++
		v := Atom(fmt.Sprintf("%s!q%d", b.Name, quantCounter), f.sortOf(t))
		bound = append(bound, v)
		n.vars[b.Name] = SVal{v, t}
	}
	if e.Name == "forall" {
		n.binders = append(append([]*Term{}, se.binders...), bound...)
		if se.pol < 0 {
			// goal-position forall: binders are not available to skolem functions of nested assumed exists
		}
		if se.pol != 0 {
			n.qfacts = &[]*Term{}
		}
		body := n.evalKeepPol(e.Args[0])
		var pats [][]*Term
		if len(e.Trigger) > 0 {
			var p []*Term
			for _, t := range e.Trigger {
				p = append(p, n.term(t))
			}
			pats = [][]*Term{p}
		} else {
			pats = inferPatterns(bound, body)
		}
		if se.pol < 0 && len(*n.qfacts) > 0 {
			body = Implies(And(*n.qfacts...), body)
		} else if se.pol > 0 && len(*n.qfacts) > 0 {
			// assumed: the same model invariant, stated for the state the quantified fact is about
			body = And(body, And(*n.qfacts...))
		}
		return SVal{Forall(bound, body, pats...), tb}
	}
	// exists
	switch {
	case se.pol > 0:
		// assumed: skolemise over the enclosing universal binders
		m := map[string]*Term{}
		for i, b := range bound {
			var sorts []Sort
			for _, ub := range se.binders {
				sorts = append(sorts, ub.S)
			}
			label := e.Label
			if label == "" {
				label = "ex"
			}
			quantCounter++
			name := fmt.Sprintf("sk!%s!%s!%d", label, se.site, quantCounter)
			if len(bound) > 1 {
				name += fmt.Sprintf("!%d", i)
			}
			fname := f.ctx.declFun(name, sorts, b.S)
			f.ctx.skolems[label] = append(f.ctx.skolems[label], &skolemFn{name: fname, sorts: sorts, res: b.S, site: se.site})
			var sk *Term
			if len(se.binders) == 0 {
				sk = Atom(fname, b.S)
			} else {
				sk = App(fname, b.S, se.binders...)
			}
			m[b.Op] = sk
			n.vars[e.Binders[i].Name] = SVal{sk, n.vars[e.Binders[i].Name].T}
		}
		body := n.evalKeepPol(e.Args[0])
		return SVal{body, tb}
	case se.pol < 0:
		// goal: instantiate with explicit witnesses and with skolem functions of the same label in scope
		var disj []*Term
		if len(e.Witness) > 0 && len(e.Witness) == len(bound) {
			w := n.fork()
			for i := range bound {
				wv := se.withPol(0, func() SVal { return se.eval(e.Witness[i]) })
				w.vars[e.Binders[i].Name] = SVal{wv.V, n.vars[e.Binders[i].Name].T}
			}
			w.pol = se.pol
			disj = append(disj, w.evalKeepPol(e.Args[0]))
		}
		if we, ok := se.wit[e.Label]; ok && e.Label != "" && len(bound) == 1 {
			w := n.fork()
			// the witness is written in the vocabulary of the clause (not of a spec function being
			// expanded), with the binders in scope visible
			wenv := se
			if se.witEnv != nil {
				wenv = se.witEnv.fork()
				for k, v := range se.vars {
					if _, dup := wenv.vars[k]; !dup {
						wenv.vars[k] = v
					}
				}
			} else {
				wenv = se.fork()
			}
			wenv.witSort = bound[0].S
			wv := wenv.withPol(0, func() SVal { return wenv.eval(we) })
			w.vars[e.Binders[0].Name] = SVal{wv.V, n.vars[e.Binders[0].Name].T}
			w.pol = se.pol
			disj = append(disj, w.evalKeepPol(e.Args[0]))
		}
		if e.Label != "" && len(bound) == 1 {
			for _, sk := range f.ctx.skolems[e.Label] {
				if sk.res != bound[0].S || len(sk.sorts) > len(se.binders) {
					continue
				}
				// apply to the innermost binders with matching sorts
				args := se.binders[len(se.binders)-len(sk.sorts):]
				okSorts := true
				for i, a := range args {
					if a.S != sk.sorts[i] {
						okSorts = false
					}
				}
				if !okSorts {
					continue
				}
				w := n.fork()
				var skt *Term
				if len(args) == 0 {
					skt = Atom(sk.name, sk.res)
				} else {
					skt = App(sk.name, sk.res, args...)
				}
				w.vars[e.Binders[0].Name] = SVal{skt, n.vars[e.Binders[0].Name].T}
				w.pol = se.pol
				disj = append(disj, w.evalKeepPol(e.Args[0]))
			}
		}
		if len(disj) > 0 {
			return SVal{Or(disj...), tb}
		}
		body := n.evalKeepPol(e.Args[0])
		return SVal{Exists(bound, body), tb}
	}
	body := n.evalKeepPol(e.Args[0])
	return SVal{Exists(bound, body), tb}
}

// existsFn: "there is a function f: T -> R such that body". Assumed occurrences introduce a skolem
// function; goal occurrences are proved for a witness function (explicit, or a skolem in scope).
func (se *specEnv) existsFn(e *SExpr) SVal {
	f := se.f
	tb := types.Typ[types.Bool]
	at, rt := se.resolveType(e.Binders[0].Type), se.resolveType(e.Binders[1].Type)
	as, rs := f.sortOf(at), f.sortOf(rt)
	bind := func(n *specEnv, fn func(*Term) *Term) {
		nf := map[string]func(*Term) *Term{}
		nr := map[string]types.Type{}
		for k, v := range se.fns {
			nf[k] = v
			nr[k] = se.fnRes[k]
		}
		nf[e.Name] = fn
		nr[e.Name] = rt
		n.fns, n.fnRes = nf, nr
	}
	switch {
	case se.pol > 0:
		var sorts []Sort
		for _, ub := range se.binders {
			sorts = append(sorts, ub.S)
		}
		sorts = append(sorts, as)
		quantCounter++
		name := f.ctx.declFun(fmt.Sprintf("sk!%s!%s!%d", e.Name, se.site, quantCounter), sorts, rs)
		f.ctx.skolems[e.Name] = append(f.ctx.skolems[e.Name], &skolemFn{name: name, sorts: sorts, res: rs, site: se.site})
		n := se.fork()
		outer := append([]*Term{}, se.binders...)
		bind(n, func(a *Term) *Term { return App(name, rs, append(append([]*Term{}, outer...), a)...) })
		return SVal{n.evalKeepPol(e.Args[0]), tb}
	case se.pol < 0:
		var disj []*Term
		if we, ok := se.wit[e.Name]; ok {
			pname := se.witParam[e.Name]
			if pname == "" {
				sfail("witness for ghost function %s needs a parameter: witness %s(x) := ...", e.Name, e.Name)
			}
			n := se.fork()
			outerSe := se
			if se.witEnv != nil {
				outerSe = se.witEnv
			}
			bind(n, func(a *Term) *Term {
				w := outerSe.fork()
				w.vars[pname] = SVal{a, at}
				w.pol = 0
				w.witSort = rs
				return w.term(we)
			})
			disj = append(disj, n.evalKeepPol(e.Args[0]))
		} else {
			sks := f.ctx.skolems[e.Name]
			cnt := 0
			for i := len(sks) - 1; i >= 0 && cnt < 8; i-- {
				sk := sks[i]
				if sk.res != rs || len(sk.sorts) == 0 || sk.sorts[len(sk.sorts)-1] != as {
					continue
				}
				// a skolem function introduced under universal binders is applied to the binders in
				// scope here (same number and sorts)
				lead := sk.sorts[:len(sk.sorts)-1]
				if len(lead) != len(se.binders) {
					continue
				}
				okLead := true
				for j, b := range se.binders {
					if b.S != lead[j] {
						okLead = false
					}
				}
				if !okLead {
					continue
				}
				cnt++
				n := se.fork()
				skn := sk.name
				outer := append([]*Term{}, se.binders...)
				bind(n, func(a *Term) *Term { return App(skn, rs, append(append([]*Term{}, outer...), a)...) })
				disj = append(disj, n.evalKeepPol(e.Args[0]))
			}
		}
		if len(disj) == 0 {
			// nothing in scope can witness the ghost function: the goal cannot be established here
			f.ctx.trusted["unprovable goal: no witness in scope for ghost function "+e.Name+" (the obligation is reported as failed)"] = true
			return SVal{False, tb}
		}
		return SVal{Or(disj...), tb}
	}
	sfail("existsfn %s under an equivalence is not supported", e.Name)
	return SVal{}
}

func (se *specEnv) evalKeepPol(e *SExpr) *Term {
	v := se.eval(e)
	t, ok := v.V.(*Term)
	if !ok || t.S != SBool {
		sfail("expected a boolean: %s", e)
	}
	return t
}
