package main

import (
	"fmt"
	"go/types"
	"os"
	"path/filepath"
	"sort"
	"strings"

	"golang.org/x/tools/go/packages"
	"golang.org/x/tools/go/ssa"
	"golang.org/x/tools/go/ssa/ssautil"
)

type Engine struct {
	repo        string
	extSorts    map[string]Sort // result sorts of the extern result functions seen so far
	modulePath  string
	pkgs        []*packages.Package
	prog        *ssa.Program
	spkgs       []*ssa.Package
	sorts       *Sorts
	contracts   *ContractSet
	compSeen    map[string]Sort
	nextBase    int
	effMemo     map[string]*effects
	inlineLimit int
	callSiteN   int
	fnByKey     map[string]*ssa.Function
	loadSecs    float64
	copyMethods map[string]*ssa.Function
	assumeKindInv bool
	identAlias    map[string]map[string]string // per function under verification: contract identifier -> renamed local
	privMemo    map[*ssa.Alloc]bool
	fieldFnOf   map[string][]fieldFnBinding
}

const contractFileName = "zz_contracts_verif.go"

// LoadEngine loads the given package patterns of the repository, builds SSA for them (dependencies
// get declarations only) and reads every contract file found next to the code.
func LoadEngine(repo string, patterns []string, overlay map[string][]byte) (*Engine, error) {
	cfg := &packages.Config{
		Mode: packages.NeedName | packages.NeedFiles | packages.NeedCompiledGoFiles | packages.NeedImports | packages.NeedDeps |
			packages.NeedTypes | packages.NeedTypesSizes | packages.NeedSyntax | packages.NeedTypesInfo | packages.NeedModule,
		Dir:     repo,
		Overlay: overlay,
		Env:     append(os.Environ(), "GOFLAGS=-mod=mod", "GOPROXY=off", "GOSUMDB=off", "GOTOOLCHAIN=local"),
	}
	pkgs, err := packages.Load(cfg, patterns...)
	if err != nil {
		return nil, err
	}
	var errs []string
	for _, p := range pkgs {
		for _, e := range p.Errors {
			errs = append(errs, e.Error())
		}
	}
	if len(errs) > 0 {
		return nil, fmt.Errorf("package errors: %s", strings.Join(errs, "; "))
	}
	prog, spkgs := ssautil.Packages(pkgs, ssa.GlobalDebug)
	prog.Build()
	e := &Engine{repo: repo, pkgs: pkgs, prog: prog, spkgs: spkgs, sorts: NewSorts(), contracts: NewContractSet(),
		extSorts: map[string]Sort{}, compSeen: map[string]Sort{}, effMemo: map[string]*effects{}, privMemo: map[*ssa.Alloc]bool{}, identAlias: map[string]map[string]string{}, inlineLimit: 60, fnByKey: map[string]*ssa.Function{}}
	for _, p := range pkgs {
		if p.Module != nil {
			e.modulePath = p.Module.Path
			break
		}
	}
	if e.modulePath == "" {
		e.modulePath = "github.com/grafana/cog"
	}
	// contract files
	for _, p := range pkgs {
		if len(p.GoFiles) == 0 {
			continue
		}
		dir := filepath.Dir(p.GoFiles[0])
		path := filepath.Join(dir, contractFileName)
		if data, ok := overlay[path]; ok {
			if err := e.contracts.LoadContractText(string(data), path, pkgID(p.Types)); err != nil {
				return nil, err
			}
			continue
		}
		if _, err := os.Stat(path); err == nil {
			if err := e.contracts.LoadContractFile(path, pkgID(p.Types)); err != nil {
				return nil, err
			}
		}
	}
	// index functions
	for _, sp := range spkgs {
		if sp == nil {
			continue
		}
		for _, m := range sp.Members {
			switch x := m.(type) {
			case *ssa.Function:
				e.indexFn(x)
			case *ssa.Type:
				if n, ok := x.Type().(*types.Named); ok {
					for i := 0; i < n.NumMethods(); i++ {
						if fn := prog.FuncValue(n.Method(i)); fn != nil {
							e.indexFn(fn)
						}
					}
				}
			}
		}
	}
	e.resolveRoleKeys()
	e.setupCopyFamily()
	e.setupFieldFns()
	return e, nil
}

func (e *Engine) indexFn(fn *ssa.Function) {
	if fn == nil {
		return
	}
	k := funcKey(fn)
	if _, ok := e.fnByKey[k]; ok {
		return
	}
	e.fnByKey[k] = fn
	for _, an := range fn.AnonFuncs {
		e.indexFn(an)
	}
}

func (e *Engine) FuncKeys(prefix string) []string {
	var out []string
	for k := range e.fnByKey {
		if strings.HasPrefix(k, prefix) {
			out = append(out, k)
		}
	}
	sort.Strings(out)
	return out
}
