package main

// Replay: a failed obligation is written to a replay file (obligation, position, solver verdicts,
// model); where a generator exists for the obligation's shape, the model is turned into a Go test
// that is run against the real code through `go test -overlay` (nothing is written to /repo).

import (
	"encoding/json"
	"fmt"
	"os"
	"os/exec"
	"path/filepath"
	"strings"
	"time"
)

// replayGen builds an in-package test for the failed obligation. It returns the package directory
// (relative to the repo), the test source and the name of the test; ok=false when no concrete input
// can be derived from the model.
type replayGen func(eng *Engine, o *Oblig) (pkgDir, testSrc, testName string, ok bool)

var replayGens []replayGen

func init() { replayGens = append(replayGens, replayKnown) }

// replayKnown: hand-written replays of recorded findings, /verif/known_replays/<obligation>.go with a
// first line "// pkg: <dir>".
func replayKnown(eng *Engine, o *Oblig) (string, string, string, bool) {
	path := filepath.Join(verifRoot(), "known_replays", fileSafe.ReplaceAllString(o.Name, "_")+".go")
	data, err := os.ReadFile(path)
	if err != nil {
		// inv-pres:...:name#2 (a second back edge of the same loop) shares the replay of ...:name
		if k := strings.LastIndex(o.Name, "#"); k > 0 {
			data, err = os.ReadFile(filepath.Join(verifRoot(), "known_replays", fileSafe.ReplaceAllString(o.Name[:k], "_")+".go"))
		}
		if err != nil {
			return "", "", "", false
		}
	}
	first, _, _ := strings.Cut(string(data), "\n")
	if !strings.HasPrefix(first, "// pkg:") {
		return "", "", "", false
	}
	return strings.TrimSpace(strings.TrimPrefix(first, "// pkg:")), string(data), "TestGovcReplay", true
}

func writeReplay(eng *Engine, dir, prop string, o *Oblig, repo string) (string, bool) {
	base := filepath.Join(dir, fileSafe.ReplaceAllString(o.Name, "_"))
	if len(base) > 180 {
		base = base[:180]
	}
	path := base + ".replay.txt"
	var sb strings.Builder
	fmt.Fprintf(&sb, "property: %s\nobligation: %s\nposition: %s\nfunction: %s\nstatus: %s\nsolvers: %s\n", prop, o.Name, o.Pos, o.Func, o.Status, o.Note)
	if o.Why != "" {
		fmt.Fprintf(&sb, "reason: %s\n", o.Why)
	}
	fmt.Fprintf(&sb, "goal (must hold on every path reaching it):\n  %s\n", trunc(o.Goal.String(), 4000))
	reproduced := false
	if o.Status == "failed" && o.Model != "" {
		fmt.Fprintf(&sb, "\nsolver model (counterexample to the obligation):\n%s\n", trunc(o.Model, 20000))
	}
	for _, g := range replayGens {
		pkgDir, src, testName, ok := g(eng, o)
		if !ok {
			continue
		}
		out, failed := runOverlayTest(repo, pkgDir, src, testName)
		fmt.Fprintf(&sb, "\nreplay against the real code (go test -overlay, package %s, test %s):\n--- test source ---\n%s\n--- output ---\n%s\n", pkgDir, testName, src, out)
		if failed {
			reproduced = true
			fmt.Fprintf(&sb, "\nresult: REPRODUCED on the real code\n")
		} else {
			fmt.Fprintf(&sb, "\nresult: the generated input did not misbehave on the real code\n")
		}
		break
	}
	if !reproduced {
		sb.WriteString("\nno-failing-input-found: the obligation is part of the claimed proof and is no longer discharged; the verifier's output above is the evidence.\n")
	}
	os.WriteFile(path, []byte(sb.String()), 0o644)
	return path, reproduced
}

// runOverlayTest injects an in-package test file through -overlay and runs it. A failing test (or a
// panic) means the predicted misbehaviour was observed.
func runOverlayTest(repo, pkgDir, src, testName string) (string, bool) {
	tmp, err := os.MkdirTemp("", "govc-replay")
	if err != nil {
		return err.Error(), false
	}
	defer os.RemoveAll(tmp)
	testFile := filepath.Join(tmp, "zz_replay_test.go")
	os.WriteFile(testFile, []byte(src), 0o644)
	ov := map[string]map[string]string{"Replace": {filepath.Join(repo, pkgDir, "zz_govc_replay_test.go"): testFile}}
	data, _ := json.Marshal(ov)
	ovFile := filepath.Join(tmp, "overlay.json")
	os.WriteFile(ovFile, data, 0o644)
	cmd := exec.Command("go", "test", "-overlay", ovFile, "-vet=off", "-count=1", "-timeout", "60s", "-run", "^"+testName+"$", "./"+pkgDir)
	cmd.Dir = repo
	cmd.Env = append(os.Environ(), "GOFLAGS=-mod=mod", "GOPROXY=off", "GOSUMDB=off", "GOTOOLCHAIN=local", "GOCACHE="+filepath.Join(os.TempDir(), "govc-gocache"))
	done := make(chan struct{})
	var out []byte
	go func() { out, err = cmd.CombinedOutput(); close(done) }()
	select {
	case <-done:
	case <-time.After(5 * time.Minute):
		cmd.Process.Kill()
		return "replay timed out", false
	}
	s := string(out)
	failed := err != nil && (strings.Contains(s, "--- FAIL") || strings.Contains(s, "panic:"))
	return trunc(s, 6000), failed
}

func cmdReplay(args []string) {
	if len(args) < 1 {
		fmt.Fprintln(os.Stderr, "usage: govc replay <path>")
		os.Exit(2)
	}
	data, err := os.ReadFile(args[0])
	if err != nil {
		fmt.Fprintln(os.Stderr, err)
		os.Exit(2)
	}
	fmt.Print(string(data))
	if strings.Contains(string(data), "result: REPRODUCED") {
		os.Exit(1)
	}
}

func cmdSelftest(args []string) {
	os.Exit(runSelftest(args))
}
