package main

// Memory model: field-wise component heap for pointer-to-struct objects, element heaps for slice
// backing arrays, domain/value heaps for maps, local cells for non-escaping Allocs.

import (
	"fmt"
	"go/types"
	"sort"
	"strings"

	"golang.org/x/tools/go/ssa"
)

type Val interface{}

type TupleVal []Val

type ClosureVal struct {
	Fn       *ssa.Function
	Bindings []Val
	TArgs    []types.Type
}

type BuiltinVal struct{ Name string }

type RangeIterVal struct {
	X     Val
	T     types.Type
	Dom0  *Term // domain array at range start (maps)
	Instr *ssa.Range
}

const (
	locLocal = iota
	locHeap
	locElem
	locGlobal
)

type pathElem struct {
	field int        // field index when idx == nil
	idx   *Term      // array index otherwise
	cont  types.Type // container type (struct or array)
}

type LocVal struct {
	kind  int
	alloc *ssa.Alloc  // locLocal
	glob  *ssa.Global // locGlobal
	ref   *Term       // locHeap: object ref; locElem: backing array ref
	idx   *Term       // locElem: absolute index
	rootT types.Type  // type of the root cell/object/element
	path  []pathElem
	T     types.Type // type of the location
}

func (l LocVal) extend(pe pathElem, t types.Type) LocVal {
	np := make([]pathElem, len(l.path)+1)
	copy(np, l.path)
	np[len(l.path)] = pe
	l.path = np
	l.T = t
	return l
}

type State struct {
	heap   map[string]*Term
	locals map[*ssa.Alloc]*Term
	alloc  *Term
	base   int
}

func (s *State) clone() *State {
	n := &State{heap: make(map[string]*Term, len(s.heap)), locals: make(map[*ssa.Alloc]*Term, len(s.locals)), alloc: s.alloc, base: s.base}
	for k, v := range s.heap {
		n.heap[k] = v
	}
	for k, v := range s.locals {
		n.locals[k] = v
	}
	return n
}

// comp returns the current term of a heap component, creating the base version on demand.
func (c *Ctx) comp(s *State, name string, srt Sort) *Term {
	if t, ok := s.heap[name]; ok {
		if t.S != srt {
			panic(fmt.Sprintf("component %s used at sort %s and %s", name, t.S, srt))
		}
		return t
	}
	t := c.constant(fmt.Sprintf("%s@%d", name, s.base), srt)
	s.heap[name] = t
	c.eng.compSeen[name] = srt
	return t
}

func compF(si *StructInfo, i int) string { return "F." + si.Name + "." + si.Fields[i].Name }
func trimSort(s Sort) string {
	return strings.NewReplacer("|", "", "(", "<", ")", ">", " ", "_").Replace(string(s))
}

// Component names are keyed by Go type (after substitution of type parameters), so that e.g. the
// cells of captured ints and of captured pointers, or []string and []Kind, never alias in the model.
func (f *Frame) tkey(t types.Type) string {
	t = types.Unalias(f.subst(t))
	if tp, ok := t.(*types.TypeParam); ok {
		if ct := coreTypeOf(tp); ct != nil {
			return tp.Obj().Name() + "~" + f.tkey(ct)
		}
	}
	if b, ok := t.(*types.Basic); ok && b.Kind() < types.UntypedBool && b.Kind() != types.Invalid {
		return types.Typ[b.Kind()].Name()
	}
	return strings.NewReplacer("|", "/", "\\", "/").Replace(f.ctx.eng.sorts.typeName(f.subst(t)))
}
func (f *Frame) pName(t types.Type) string     { return "P." + f.tkey(t) }
func (f *Frame) eName(t types.Type) string     { return "E." + f.tkey(t) }
func (f *Frame) mdName(k, v types.Type) string { return "MD." + f.tkey(k) + "." + f.tkey(v) }
func (f *Frame) mvName(k, v types.Type) string { return "MV." + f.tkey(k) + "." + f.tkey(v) }

// ---- frame-level memory operations -------------------------------------------------------------

func (f *Frame) sortOf(t types.Type) Sort { return f.ctx.eng.sorts.SortOf(f.subst(t)) }

func (f *Frame) structInfo(t types.Type) *StructInfo {
	return f.ctx.eng.sorts.StructOf(f.subst(t))
}

func isStructT(t types.Type) bool {
	_, ok := t.Underlying().(*types.Struct)
	return ok
}

func derefT(t types.Type) types.Type {
	if p, ok := t.Underlying().(*types.Pointer); ok {
		return p.Elem()
	}
	panic(unsupported("deref of non-pointer " + t.String()))
}

// zero value term of a Go type.
func (f *Frame) zero(t types.Type) *Term {
	t = f.subst(t)
	s := f.sortOf(t)
	return f.zeroOfSort(s, t)
}

func (f *Frame) zeroOfSort(s Sort, t types.Type) *Term {
	switch s {
	case SInt:
		return IntLit(0)
	case SBool:
		return False
	case SStr:
		return f.ctx.strLit("")
	case SAny:
		return Atom("anynil", SAny)
	case SFlt:
		return f.ctx.fltLit("0")
	case SSlc:
		return NilSlice
	}
	if si, ok := f.ctx.eng.sorts.structs[string(s)]; ok {
		fs := make([]*Term, len(si.Fields))
		for i, fi := range si.Fields {
			fs[i] = f.zeroOfSort(fi.Sort, fi.Type)
		}
		return si.Mk(fs)
	}
	if strings.HasPrefix(string(s), "(Array ") {
		_, es := elemOfArr(s)
		var et types.Type
		if t != nil {
			if a, ok := t.Underlying().(*types.Array); ok {
				et = a.Elem()
			}
		}
		return f.zeroArray(s, es, et)
	}
	if strings.HasPrefix(string(s), "TP!") {
		return f.ctx.uf("zero!"+string(s), s)
	}
	panic(unsupported("zero of sort " + string(s)))
}

func (f *Frame) zeroArray(s, es Sort, et types.Type) *Term {
	{
		z := f.zeroOfSort(es, et)
		if !isValueTerm(z) {
			// solvers want a value inside (as const ...): use a named array with a defining axiom
			name := "zeroarr!" + trimSort(s)
			arr := f.ctx.uf(name, s)
			i := Atom("i!za", SInt)
			f.ctx.assumeOnce("zeroarr:"+name, Forall([]*Term{i}, Eq(Select(arr, i), z), []*Term{Select(arr, i)}))
			return arr
		}
		return ConstArr(s, z)
	}
}

// newRef allocates a fresh reference.
func (f *Frame) newRef(st *State, hint string) *Term {
	r := f.ctx.fresh(hint, SInt)
	f.ctx.assume(Ge(r, st.alloc))
	f.ctx.assume(Gt(r, IntLit(0)))
	st.alloc = Add(r, IntLit(1))
	return r
}

// readRoot reads the whole root value of a location.
func (f *Frame) readRoot(st *State, l LocVal) *Term {
	switch l.kind {
	case locLocal:
		v, ok := st.locals[l.alloc]
		if !ok {
			v = f.zero(l.rootT)
			st.locals[l.alloc] = v
		}
		return v
	case locGlobal:
		name := "G." + l.glob.Pkg.Pkg.Name() + "." + l.glob.Name()
		return f.ctx.comp(st, name, f.sortOf(l.rootT))
	case locElem:
		es := f.sortOf(l.rootT)
		E := f.ctx.comp(st, f.eName(l.rootT), ArrS(SInt, ArrS(SInt, es)))
		return Select(Select(E, l.ref), l.idx)
	case locHeap:
		if isStructT(f.subst(l.rootT)) {
			si := f.structInfo(l.rootT)
			fs := make([]*Term, len(si.Fields))
			for i := range si.Fields {
				fs[i] = f.readHeapField(st, si, i, l.ref)
			}
			return si.Mk(fs)
		}
		if a, ok := f.subst(l.rootT).Underlying().(*types.Array); ok {
			es := f.sortOf(a.Elem())
			E := f.ctx.comp(st, f.eName(a.Elem()), ArrS(SInt, ArrS(SInt, es)))
			return Select(E, l.ref)
		}
		s := f.sortOf(l.rootT)
		P := f.ctx.comp(st, f.pName(l.rootT), ArrS(SInt, s))
		return Select(P, l.ref)
	}
	panic("readRoot")
}

func (f *Frame) readHeapField(st *State, si *StructInfo, i int, ref *Term) *Term {
	H := f.ctx.comp(st, compF(si, i), ArrS(SInt, si.Fields[i].Sort))
	return Select(H, ref)
}

func (f *Frame) writeHeapField(st *State, si *StructInfo, i int, ref *Term, v *Term) {
	name := compF(si, i)
	H := f.ctx.comp(st, name, ArrS(SInt, si.Fields[i].Sort))
	st.heap[name] = f.ctx.name("H", Store(H, ref, v))
}

func (f *Frame) writeRoot(st *State, l LocVal, v *Term) {
	switch l.kind {
	case locLocal:
		st.locals[l.alloc] = f.ctx.name("loc", v)
	case locGlobal:
		name := "G." + l.glob.Pkg.Pkg.Name() + "." + l.glob.Name()
		f.ctx.comp(st, name, v.S)
		st.heap[name] = v
	case locElem:
		es := f.sortOf(l.rootT)
		name := f.eName(l.rootT)
		E := f.ctx.comp(st, name, ArrS(SInt, ArrS(SInt, es)))
		st.heap[name] = f.ctx.name("E", Store(E, l.ref, Store(Select(E, l.ref), l.idx, v)))
	case locHeap:
		if isStructT(f.subst(l.rootT)) {
			si := f.structInfo(l.rootT)
			for i := range si.Fields {
				f.writeHeapField(st, si, i, l.ref, si.Get(v, i))
			}
			return
		}
		if a, ok := f.subst(l.rootT).Underlying().(*types.Array); ok {
			es := f.sortOf(a.Elem())
			name := f.eName(a.Elem())
			E := f.ctx.comp(st, name, ArrS(SInt, ArrS(SInt, es)))
			st.heap[name] = f.ctx.name("E", Store(E, l.ref, v))
			return
		}
		s := f.sortOf(l.rootT)
		name := f.pName(l.rootT)
		P := f.ctx.comp(st, name, ArrS(SInt, s))
		st.heap[name] = f.ctx.name("P", Store(P, l.ref, v))
	}
}

// project walks a path inside a value.
func (f *Frame) project(v *Term, path []pathElem) *Term {
	for _, pe := range path {
		if pe.idx != nil {
			v = Select(v, pe.idx)
		} else {
			si := f.structInfo(pe.cont)
			v = si.Get(v, pe.field)
		}
	}
	return v
}

// inject returns root with the value at path replaced by nv.
func (f *Frame) inject(root *Term, path []pathElem, nv *Term) *Term {
	if len(path) == 0 {
		return nv
	}
	pe := path[0]
	if pe.idx != nil {
		inner := f.inject(Select(root, pe.idx), path[1:], nv)
		return Store(root, pe.idx, inner)
	}
	si := f.structInfo(pe.cont)
	inner := f.inject(si.Get(root, pe.field), path[1:], nv)
	return si.Set(root, pe.field, inner)
}

func (f *Frame) load(st *State, l LocVal) *Term {
	// field-wise fast path for heap structs
	if l.kind == locHeap && len(l.path) > 0 && l.path[0].idx == nil && isStructT(f.subst(l.rootT)) {
		si := f.structInfo(l.rootT)
		v := f.readHeapField(st, si, l.path[0].field, l.ref)
		return f.project(v, l.path[1:])
	}
	return f.project(f.readRoot(st, l), l.path)
}

func (f *Frame) store(st *State, l LocVal, v *Term) {
	if l.kind == locHeap && len(l.path) > 0 && l.path[0].idx == nil && isStructT(f.subst(l.rootT)) {
		si := f.structInfo(l.rootT)
		i := l.path[0].field
		old := f.readHeapField(st, si, i, l.ref)
		f.writeHeapField(st, si, i, l.ref, f.inject(old, l.path[1:], v))
		return
	}
	if len(l.path) == 0 {
		f.writeRoot(st, l, v)
		return
	}
	f.writeRoot(st, l, f.inject(f.readRoot(st, l), l.path, v))
}

// asLoc turns a pointer value into a location.
func (f *Frame) asLoc(v Val, ptrT types.Type) LocVal {
	switch x := v.(type) {
	case LocVal:
		return x
	case *Term:
		et := derefT(f.subst(ptrT))
		return LocVal{kind: locHeap, ref: x, rootT: et, T: et}
	}
	panic(unsupported(fmt.Sprintf("pointer value %T", v)))
}

// asTerm converts a value into a term (pointers must be whole-object references).
func (f *Frame) asTerm(v Val) *Term {
	switch x := v.(type) {
	case *Term:
		return x
	case LocVal:
		if x.kind == locHeap && len(x.path) == 0 {
			return x.ref
		}
		panic(unsupported("interior or local pointer used as a first-class value"))
	case ClosureVal:
		return f.closureTerm(x)
	case nil:
		panic(unsupported("nil value"))
	}
	panic(unsupported(fmt.Sprintf("value %T used as term", v)))
}

func (f *Frame) closureTerm(c ClosureVal) *Term {
	// an opaque but stable identity for a function value
	key := "fn!" + funcKey(c.Fn)
	if len(c.Bindings) == 0 {
		t := f.ctx.constant(key, SInt)
		f.ctx.assumeOnce("fnnonnil:"+key, Gt(t, IntLit(0)))
		f.ctx.closures[t.Op] = c
		return t
	}
	t := f.ctx.fresh(key, SInt)
	f.ctx.assume(Gt(t, IntLit(0)))
	f.ctx.closures[t.Op] = c
	return t
}

// havocTop forgets every heap component (callee with unknown effects).
func (f *Frame) havocTop(st *State) {
	f.ctx.eng.nextBase++
	st.base = f.ctx.eng.nextBase
	// at-call let registers are ghost values of the function under verification, not memory
	keep := map[string]*Term{}
	for k, v := range st.heap {
		if strings.HasPrefix(k, "$let!") {
			keep[k] = v
		}
	}
	st.heap = keep
	na := f.ctx.fresh("alloc", SInt)
	f.ctx.assume(Ge(na, st.alloc))
	st.alloc = na
}

func (f *Frame) havocComps(st *State, comps map[string]Sort) {
	names := make([]string, 0, len(comps))
	for n := range comps {
		names = append(names, n)
	}
	sort.Strings(names)
	for _, name := range names {
		f.ctx.eng.compSeen[name] = comps[name]
		st.heap[name] = f.ctx.fresh(name, comps[name])
	}
	na := f.ctx.fresh("alloc", SInt)
	f.ctx.assume(Ge(na, st.alloc))
	st.alloc = na
}

func isValueTerm(t *Term) bool {
	if t.IsAtom() {
		if _, ok := t.intVal(); ok {
			return true
		}
		return t.Op == "true" || t.Op == "false"
	}
	if t.Op == "-" && len(t.Args) == 1 {
		return isValueTerm(t.Args[0])
	}
	if strings.HasPrefix(t.Op, "mk!") || strings.HasPrefix(t.Op, "|mk!") || t.Op == "const-array" {
		for _, a := range t.Args {
			if !isValueTerm(a) {
				return false
			}
		}
		return true
	}
	return false
}
