package main

// Registration of the per-property checks.

func init() {
	propSpecs["C19"] = &PropSpec{
		ID:       "C19",
		Patterns: []string{"./internal/orderedmap"},
		Level:    "proof",
		Assumptions: []string{
			"the zero value of orderedmap.Map is not a valid map: every contract requires wf (records != nil), established by New/FromMap/UnmarshalJSON",
			"\"any sequence of operations\" follows by induction from: every method preserves wf and relates the new view to the old one for every pre-state (no length bound)",
			"callbacks handed to Iterate/Map/Filter/Sort from outside the verified code do not write memory that existed before the call (inside the module these helpers are expanded at the call site instead)",
			"encoding/json, bytes.Buffer, sort.SliceStable, cmp.Equal are outside /repo: assumed contracts listed in trusted_base; the JSON text produced/accepted is not specified",
		},
	}
}
