package main

import (
	"path/filepath"
	"strings"
)

// Registration of the per-property checks.

func init() {
	propSpecs["C19"] = &PropSpec{
		ID:       "C19",
		Patterns: []string{"./internal/orderedmap"},
		Level:    "proof",
		Assumptions: []string{
			"the zero value of orderedmap.Map is not a valid map: every contract requires wf (records != nil), established by New/FromMap/UnmarshalJSON",
			"\"any sequence of operations\" follows by induction from: every method preserves wf and relates the new view to the old one for every pre-state (no length bound)",
			"callbacks handed to Iterate/Map/Filter/Sort from outside the verified code do not write memory that existed before the call (inside the module these helpers are expanded at the call site instead)",
			"encoding/json, bytes.Buffer, sort.SliceStable, cmp.Equal are outside /repo: assumed contracts listed in trusted_base; the JSON text produced/accepted is not specified",
		},
	}
	propSpecs["C18"] = &PropSpec{
		ID:       "C18",
		Patterns: []string{"./internal/ast", "./internal/orderedmap", "./internal/tools"},
		Level:    "proof",
		Assumptions: []string{
			"values behind `any` (Default, Value, Constant, Args, hint values, ReferenceValue) are treated as immutable atoms: a copy may share them; no cog code writes through them",
			"the copy relation of every type is generated from its go/types declaration; nil and empty slices/maps are identified",
			"faithfulness and independence for values of any depth follow from the per-method obligations by the modular rule (structural induction over the finite IR tree)",
			"relations established by a callee stay valid because the caller may only write memory it allocated itself (own-memory frame obligations); IR values are finite trees",
		},
	}
	propSpecs["C04"] = &PropSpec{
		ID: "C04",
		Patterns: []string{"./internal/ast", "./internal/ast/compiler", "./internal/orderedmap", "./internal/tools", "./internal/veneers/...", "./internal/yaml",
			"./internal/languages", "./internal/jsonschema", "./internal/openapi", "./internal/codegen", "./internal/jennies/jsonschema"},
		Level:   "proof",
		Prepare: func(e *Engine) { e.assumeKindInv = true },
		NoTags:  true,
		// "C04-part <function> <substring>..." lines of the lock: a function that cannot be claimed as a whole
		// (some obligation needs a precondition that is not written yet, or is a recorded candidate) is claimed
		// for the obligations whose name contains one of the substrings - ALL of them, also ones that appear later
		Funcs: func(e *Engine) []string {
			var out []string
			for _, l := range loadLock(filepath.Join(verifRoot(), "obligations.lock"), "C04-part") {
				if fs := strings.Fields(l); len(fs) >= 2 {
					out = append(out, fs[0])
				}
			}
			return out
		},
		Opts: func(e *Engine, key string) VerifyOpts {
			o := VerifyOpts{Sweep: true}
			for _, l := range loadLock(filepath.Join(verifRoot(), "obligations.lock"), "C04-part") {
				if fs := strings.Fields(l); len(fs) >= 2 && fs[0] == key {
					o.OnlyNames = append(o.OnlyNames, fs[1:]...)
				}
			}
			return o
		},
		Assumptions: []string{
			"scope: panic-freedom (nil dereference, index and slice bounds, type assertions, nil-map writes, make sizes, division, explicit panics, callee preconditions) of the functions listed in obligations.lock, each under the standing preconditions named in trusted_base; termination is NOT proved",
			"functions of the swept packages that are not in the lock are undecided and not claimed (their failing obligations are either missing preconditions or candidate findings, see DESIGN.md)",
			"`C04-part <function> <kinds>` lines claim a function per obligation kind: every obligation of a listed kind (nil-deref, index, nil-map-write, ...), also one that a later change adds, must discharge; the obligations of the other kinds of that function are not claimed and the claimed ones are proved assuming they hold (a failed obligation is assumed afterwards); a per-function cover obligation guards against a contradictory context",
			"`binds` clauses: a precondition over the value receiver of a method that is used as a callback is checked where the method value is created (r.processObject) and assumed in the method; calls through the function value are not re-checked (the receiver copy cannot change)",
			"calls to functions without a contract are assumed not to panic themselves (each is verified separately when it is in the lock); third-party libraries and text/template execution are assumed not to panic",
		},
	}
	propSpecs["C20"] = &PropSpec{
		ID:       "C20",
		Patterns: []string{"./internal/yaml", "./internal/codegen", "./internal/ast", "./internal/ast/compiler", "./internal/orderedmap", "./internal/tools", "./internal/veneers/..."},
		Level:    "proof",
		Prepare:  func(e *Engine) { e.assumeKindInv = true },
		Funcs: func(e *Engine) []string {
			return []string{"yaml.(*CompilerLoader).Load", "yaml.(*VeneersLoader).load", "codegen.PipelineFromFile",
				"yaml.CompilerPass.AsCompilerPass", "yaml.BuilderRule.AsRewriteRule", "yaml.OptionRule.AsRewriteRule",
				"yaml.BuilderSelector.AsSelector", "yaml.OptionSelector.AsSelector"}
		},
		Opts: func(e *Engine, key string) VerifyOpts {
			o := VerifyOpts{Sweep: true}
			if strings.Contains(key, ".As") {
				o.ExtraPost = func(f *Frame, exit *State, rs []SVal) []namedTerm { return f.unionObligations(exit, rs) }
			}
			o.OnlyKinds = []string{"pre", "union", "typegraph"}
			return o
		},
		Extra: func(e *Engine, tier string) []*FuncResult {
			loaders := map[string]bool{"yaml.(*CompilerLoader).Load": true, "yaml.(*VeneersLoader).load": true, "codegen.PipelineFromFile": true}
			return []*FuncResult{e.typeGraphResult(), e.decoderSitesResult(loaders), e.strictErrorsPropagateResult(loaders)}
		},
		Assumptions: []string{
			"yaml.v3 semantics are assumed: NewDecoder is not strict, KnownFields(true) makes Decode reject any mapping key that matches no field of the target struct at any depth (for struct targets without custom unmarshalers); JSON Schema additionalProperties:false rejects undeclared keys",
			"positions typed any / map[string]any / map[string]string are open by design (listed in trusted_base)",
			"the safety obligations of the loaders (nil dereferences etc.) belong to C04, not to this property",
			"a rejected document stays rejected: structural obligations over go/ssa that every function of internal/yaml and internal/codegen from which a strict loader is reachable propagates the error of every such call (returned, or the non-nil branch leads only to returns of a non-nil error and never back to the call)",
		},
	}
	propSpecs["C16"] = &PropSpec{
		ID:       "C16",
		Patterns: []string{"./internal/ast", "./internal/orderedmap", "./internal/tools"},
		Level:    "proof",
		Prepare:  func(e *Engine) { e.assumeKindInv = true },
		Assumptions: []string{
			"Schemas.ResolveToType is used as a pure function of (schemas, type, heap): `resolves to a struct - directly or through a chain of references` is by definition ResolveToType(object.Type).Kind == struct; the reference-following loop itself is not specified here",
			"the schemas handed to FromAST are well formed: non-nil schemas with well-formed ordered maps (C19), and the IR kind/payload invariant (C04 standing assumptions)",
			"covers BuilderGenerator.FromAST / structObjectToBuilder / structFieldToOption / FieldAssignment / ArgumentAssignment / ConstantAssignment / WithTypeConstraints / PathFromStructField; what `cog inspect --ir builders` prints afterwards (JSON encoding of these values) is outside the claim",
			"equality of IR values in the contracts is equality of the Go values (same payload pointers); since the derivation modifies no pre-existing memory (frame obligations) this is equality of the types/defaults the schema holds",
		},
	}
	propSpecs["C15"] = &PropSpec{
		ID:       "C15",
		Patterns: []string{"./internal/ast", "./internal/ast/compiler", "./internal/orderedmap", "./internal/tools", "./internal/yaml", "./internal/veneers/..."},
		Level:    "proof",
		Prepare:  func(e *Engine) { e.assumeKindInv = true },
		Opts: func(e *Engine, key string) VerifyOpts {
			// panic-freedom of the same functions is C04's claim (type assertions on constant values etc.)
			return VerifyOpts{OnlyKinds: []string{"pre", "post", "frame", "inv-init", "inv-pres", "cover", "call"}, PathCovers: true}
		},
		Extra: func(e *Engine, tier string) []*FuncResult { return []*FuncResult{e.yamlCarriedResult(map[string]bool{"AsCompilerPass": true}, "c15")} },
		Assumptions: []string{
			"scope: the pass-specific callbacks (processObject / processRef / processSchema / Process) of the transformations listed in functions_under_contract; each contract states the documented effect on the selected object/field/reference and that everything else is returned or left as it was (value equality plus write frames)",
			"the shared Visitor (internal/ast/compiler/visitor.go) that applies these callbacks is under contract from VisitType down (dispatch by kind, delegation to the registered callback, descent into nested types, results stored in place); VisitSchema / VisitSchemas (objects visited in order, registered objects appended, package / metadata / entry point carried over) and Passes.Process chaining are assumed",
			"configuration: every field of the YAML description of a transformation is read by its AsCompilerPass method (structural obligation over go/ssa, one per field); what the method does with it is not specified",
			"matching is specified explicitly: package compared exactly, object and field names with strings.EqualFold (assumed an equivalence coarser than ==)",
			"appends to trails/comments may write into spare capacity of an existing backing array (`modifies spare-capacity`): assumed unobservable (no IR slice overlaps another slice's spare capacity)",
			"transformations under contract are exactly the ones in functions_under_contract (prefix_objects_names, hint_object, fields_set_default, duplicate_object, omit, omit_fields, rename_object, replace_reference, retype_*, add_fields, add_object, constant_to_enum, trim_enum_values, fields_set_required/not_required, schema_set_*, append_comment); the other schema transformations are not covered",
		},
	}
	propSpecs["C17"] = &PropSpec{
		ID:       "C17",
		Patterns: []string{"./internal/ast", "./internal/orderedmap", "./internal/tools", "./internal/veneers/...", "./internal/yaml", "./internal/ast/compiler"},
		Level:    "proof",
		Prepare:  func(e *Engine) { e.assumeKindInv = true },
		Funcs:    func(e *Engine) []string { return []string{"tools.StringInListEqualFold"} },
		Opts: func(e *Engine, key string) VerifyOpts {
			return VerifyOpts{OnlyKinds: []string{"pre", "post", "frame", "inv-init", "inv-pres", "cover", "call"}, PathCovers: true}
		},
		Extra: func(e *Engine, tier string) []*FuncResult {
			return []*FuncResult{e.mergeFlowResult(), e.siblingCopyResult(), e.ruleGlueResult(), e.composedConstructorResult(), e.mergedCopiesResult(), e.yamlCarriedResult(map[string]bool{"AsRewriteRule": true, "AsSelector": true}, "c17")}
		},
		Assumptions: []string{
			"configuration: every field of the YAML description of a builder / option rule or selector is read by its AsRewriteRule / AsSelector method (structural obligation over go/ssa, one per field)",
			"disjunction_as_options: a def-use obligation over go/ssa requires every sibling option to be built from a deep copy taken in its own loop iteration (independence of the copy is C18's claim); the action itself is not under a functional contract",
			"merge_into / compose: ast.Path.Append is under contract (a fresh array holding receiver ++ suffix, nothing pre-existing written) and a def-use obligation generated from the SSA of mergeBuilderInto requires every path of a copied assignment to be built by underPath.Append(old path) and nothing else; the loops of mergeBuilderInto (which options are copied, renamed, excluded) are not under contract",
			"scope: rule contracts of the builder rules omit / rename / properties / duplicate / initialize / add_factory / add_option / promote_options_to_constructor, the option actions rename / rename_arguments / omit / duplicate / add_comments / add_assignment / veneer_trail_as_comments / array_to_append / map_to_index / unfold_boolean, the conversion of configured options and assignments into IR (veneers.Option.AsIR, Assignment.AsIR and the value converters) and the by-name selectors: each states what comes back for a selected builder/option (including what is kept: arguments, assignments, target paths, defaults) and that non-applicable inputs come back unchanged",
			"NOT covered by this check: Rewriter.ApplyTo / applyBuilderRules (applyOptionRules is under an at-call obligation: a rule is applied only to options its selector selected), sequences of rules, and the remaining rules (disjunction_as_options beyond the sibling-copy obligation; promote_options_to_constructor only its frame; merge_into / compose only as far as the re-rooting of paths goes; struct_fields_as_arguments / _options only write frames)",
			"selectors are values of a `pure` function type: their answer is a function of the selector value and the argument values",
			"appends may write into spare capacity of an existing backing array (`modifies spare-capacity`): assumed unobservable; panic-freedom of the same closures is C04's claim",
		},
	}
	propSpecs["C07"] = &PropSpec{
		ID:       "C07",
		Patterns: []string{"./internal/ast", "./internal/ast/compiler", "./internal/orderedmap", "./internal/tools", "./internal/codegen"},
		Level:    "proof",
		Prepare:  func(e *Engine) { e.assumeKindInv = true },
		Opts: func(e *Engine, key string) VerifyOpts {
			return VerifyOpts{OnlyKinds: []string{"pre", "post", "frame", "inv-init", "inv-pres", "cover", "call"}, PathCovers: true}
		},
		Extra: func(e *Engine, tier string) []*FuncResult { return []*FuncResult{e.flowResult()} },
		Assumptions: []string{
			"scope (1): Schema.Merge under contract - the receiving schema never loses or overwrites a definition; on success its objects are exactly the union, added objects are the other schema's, and objects present in both agree (Object.Equal); same package and metadata",
			"scope (2): three structural def-use obligations over go/ssa (discharged by the generator, not by SMT): Passes.Process hands its passes only the deep copy of its argument; ContextForLanguage hands the shared schemas only to Passes.Process; Run hands the loaded schemas only to ContextForLanguage. With C18 (the copy shares no mutable memory with the original) and the write frames of C15 this is the argument that a transformation chain never modifies the schemas it was handed and that one language's chain cannot influence another's",
			"NOT covered: Schemas.Consolidate's grouping loop (first-seen order fixed under C03), identity of generated files across language subsets and input permutations (jennies/templates: generated-program behaviour outside this technique's reach), veneers shared between languages",
			"Object.Equal is used as an uninterpreted pure function (go-cmp based)",
		},
	}
	propSpecs["C05"] = &PropSpec{
		ID:       "C05",
		Patterns: []string{"./internal/ast", "./internal/ast/compiler", "./internal/orderedmap", "./internal/tools", "./internal/jsonschema", "./internal/openapi", "./internal/simplecue"},
		Level:    "proof",
		Prepare:  func(e *Engine) { e.assumeKindInv = true },
		Opts: func(e *Engine, key string) VerifyOpts {
			return VerifyOpts{OnlyKinds: []string{"pre", "post", "frame", "inv-init", "inv-pres", "cover", "call"}, PathCovers: true}
		},
		Extra: func(e *Engine, tier string) []*FuncResult {
			return []*FuncResult{e.refKindsResult(), e.nameWritersResult(), e.parserDeclaresResult(), e.parserRefsResult()}
		},
		Assumptions: []string{
			"scope (1) name-changing transformations: rename_object (one selection predicate - package exact, name case-insensitive - for the object, references and constant references; entry point kept in step), name prefixing (the same prefix on objects, references, constant references, discriminator mappings, the mapping copy kept in hints, enum/struct positions; entry point kept in step), duplicate_object (the copy is registered under the new name with a matching SelfRef; the original is kept), replace_reference.processRef, disjunction_to_type (the reference returned names the object that was registered); (2) allowed_objects: the closures of FilterSchemas (reference followed => added to the allow list; kept objects are exactly the listed ones) with Schemas.Locate; (3) the shared Visitor from VisitType down is VERIFIED (dispatch by kind, callback delegation, descent into every nested type, results stored in place, registry of new objects); VisitSchemas is assumed (same length, fresh schemas, package/metadata/entry point carried over); (4) structural obligations: every function of the compiler package that writes an object's name is classified (renames / creates); the visitors of rename_object, name prefixing, unspec and allowed_objects handle every reference-carrying kind of ast.Type (from its declaration), every callback of these visitors is under contract, a renaming pass writes Schema.EntryPoint; unspec's lookup (newNameFor) and its two callbacks are under functional contracts; (5) parsers, structural obligations over go/ssa: (jsonschema, openapi) in every function from which declareDefinition is reachable the error of such a call is propagated or tested against a sentinel the package never produces; (jsonschema, simplecue) on every path to ast.NewRef(pkg, name) and to the store into Schema.EntryPoint the same SSA value `name` was declared (declareDefinition / declareObject / AddObject under that name), or Objects.Has(name) held, or pkg was found different from the schema's package; the declaring function returns a nil error only after AddObject under its name parameter or behind its `already recorded` test",
			"NOT covered: OpenAPI $ref resolution (walkRef declares nothing: refs other than #/components/schemas/<name> dangle), what the CUE library considers a reference, the transitive-closure fixpoint of allowed_objects as a whole, composition of a complete language chain (per-pass contracts only)",
			"map index types are visited by VisitMap; reference positions inside hints other than the discriminator mapping copy are not modelled",
		},
	}
	propSpecs["C06"] = &PropSpec{
		ID: "C06",
		Patterns: []string{"./internal/ast", "./internal/ast/compiler", "./internal/orderedmap", "./internal/tools",
			"./internal/jennies/golang", "./internal/jennies/java", "./internal/jennies/php", "./internal/jennies/python", "./internal/jennies/typescript"},
		Level:   "proof",
		Prepare: func(e *Engine) { e.assumeKindInv = true },
		Opts: func(e *Engine, key string) VerifyOpts {
			if key == "compiler.(*DisjunctionToType).processDisjunction" {
				// only its postcondition is claimed: the preconditions of the visitor's object registry and of
				// Type.AsScalar at its call sites depend on state behind callbacks with unknown effects
				return VerifyOpts{OnlyKinds: []string{"post", "cover", "call"}, PathCovers: true}
			}
			return VerifyOpts{OnlyKinds: []string{"pre", "post", "frame", "inv-init", "inv-pres", "cover", "call"}, PathCovers: true}
		},
		Extra: func(e *Engine, tier string) []*FuncResult { return []*FuncResult{e.chainResult()} },
		Assumptions: []string{
			"scope (1), chain level: for each language the rewrite that establishes each normal form named by the property is in Language.CompilerPasses(), after the passes that can create the construct it removes, and (Go, Java) nothing that can create a union follows DisjunctionToType; the chains are read from go/ssa, the obligations are discharged by the generator (not SMT)",
			"scope (2), pass level: local postconditions of not_required_as_nullable (a non-required field comes back nullable), disjunction_with_null_to_optional (a two-branch T|null union comes back as T made nullable, other unions unchanged), prefix_enum_values (types and values of members kept), with Types.HasNullType / NonNullTypes under contract",
			"scope (3): the shared Visitor that carries every pass to the nested occurrences (arrays, maps, union and intersection branches, struct fields) is under contract from VisitType down (dispatch by kind, delegation to the registered callback, descent into every nested type, results stored in place); VisitSchema / VisitSchemas are assumed",
			"scope (4): disjunction_to_type returns a leaf (a scalar or a reference) for every union it is given, so nothing nested survives in the replacement; only this postcondition of processDisjunction is claimed (the preconditions of the visitor's object registry and of Type.AsScalar at its call sites are not established here)",
			"NOT proved: the deep `anywhere in the IR` normal forms as such (they need recursive predicates over type trees and the induction over the tree, which stay a paper argument over the per-method contracts of the passes and the verified Visitor); the identifier rules of enum member names (string theory) and objects created by earlier passes are not under contract; anonymous_structs_to_named and anonymous_enum_to_explicit_type are under local contracts (what comes back for each kind is a reference to a registered object / the nested results stored in place)",
		},
	}
	propSpecs["C10"] = &PropSpec{
		ID:       "C10",
		Patterns: []string{"./internal/jsonschema", "./internal/openapi", "./internal/simplecue", "./internal/ast", "./internal/ast/compiler", "./internal/orderedmap", "./internal/tools"},
		Level:    "proof",
		Prepare:  func(e *Engine) { e.assumeKindInv = true },
		Opts: func(e *Engine, key string) VerifyOpts {
			return VerifyOpts{OnlyKinds: []string{"pre", "post", "frame", "inv-init", "inv-pres", "cover", "call"}, PathCovers: true}
		},
		Extra: func(e *Engine, tier string) []*FuncResult { return []*FuncResult{e.unwrapFlowResult(), e.cueDefaultFlowResult(), e.cueDefaultSinksResult()} },
		Assumptions: []string{
			"scope: the IR side of the property for the JSON Schema front end only - a default/constant/enum value decoded by the schema library (json.Number for numbers) enters the IR as the Go number it denotes: unwrapJSONNumber(s) under contract (never returns a json.Number, leaves other values alone) plus def-use obligations over go/ssa that every library value reaching ast.Default / ast.Value / Type.Default / ScalarType.Value / EnumValue.Value in a walker that can hold numbers passes through it (walkString and walkBool are exempt)",
			"OpenAPI front end: functional contracts on the walkers (the default of a string / number / integer / boolean / array / enum schema and every enum member value enter the IR as the very value the library decoded)",
			"CUE front end: the CUE library is opaque to the engine; only structural obligations are claimed - in cueConcreteToScalar every list element / struct field the iterator yields is converted and recorded (no path back to the loop head skips the append / the map store), and every default handed to the IR in package simplecue comes from extractDefault / cueConcreteToScalar through extracts and phis only (no function is applied to it on the way)",
			"passes that move or carry a default: disjunction_with_constant_to_default under a functional contract (`T | constant` in either order comes back as T with the constant's value as Default; any other union as it was); anonymous_structs_to_named (the reference that replaces a struct keeps its Default); passes that rebuild types through functional options (disjunction_to_type, disjunction_of_constants_to_enum, ...) are not covered: the engine has no model of ast.TypeOption closures",
			"NOT covered (generated-program behaviour, outside this technique): what the Go and Python default constructors print, agreement between the two languages, the rest of the CUE front end",
			"encoding/json.Number.Int64/Float64/String are assumed total functions returning values of the stated Go types",
		},
	}
	// the partial claim on Visitor.VisitSchema (see its contract): only the at-call obligations
	for _, id := range []string{"C05", "C06", "C15", "C10"} {
		ps := propSpecs[id]
		prev := ps.Opts
		ps.Opts = func(e *Engine, key string) VerifyOpts {
			var o VerifyOpts
			if prev != nil {
				o = prev(e, key)
			}
			if key == "compiler.(*Visitor).VisitSchema" {
				o.OnlyNames = []string{"call:"}
			}
			if key == "compiler.(*DisjunctionToType).processDisjunction" {
				// only its postconditions are claimed (see C06)
				o.OnlyKinds = []string{"post", "cover", "call"}
				o.PathCovers = true
			}
			return o
		}
	}
	propSpecs["C03"] = &PropSpec{
		ID:       "C03",
		Patterns: []string{"./..."},
		Level:    "proof",
		NoTags:   true,
		CustomLock: true,
		Extra: func(e *Engine, tier string) []*FuncResult {
			locked := map[string]bool{}
			for _, l := range loadLock(filepath.Join(verifRoot(), "obligations.lock"), "C03") {
				locked[l] = true
			}
			var out []*FuncResult
			for _, s := range e.mapRangeSites() {
				if locked[s.Name] {
					out = append(out, e.commuteResult(s))
					delete(locked, s.Name)
				}
			}
			// a locked site that no longer exists as a map range is fine (it cannot be order dependent any more)
			out = append(out, e.nondetScanResult(), e.newSitesResult(), e.helperCallersResult(), e.keyedSitesResult(), e.sortedFieldSitesResult())
			return out
		},
		Assumptions: []string{
			"reduction: a cog run is sequential Go; its only scheduling freedom is the iteration order of `range` over built-in maps; the libraries cog calls are deterministic; codejen.FS sorts paths; text/template ranges over maps in sorted key order; filepath.Glob and os.ReadDir return sorted names",
			"one order-independence obligation per range-over-map site listed in obligations.lock: the body is executed from an arbitrary state for two arbitrary distinct keys in both orders and the resulting states must agree (collected slices: up to the order of the two new elements, and they must be sorted before use)",
			"sites of the pipeline that are not in the lock are either recorded findings or undecided (listed in DESIGN.md); a NEW range-over-map site fails the check until it is classified",
		},
	}
}
