package main

// Registration of the per-property checks.

func init() {
	propSpecs["C19"] = &PropSpec{
		ID:       "C19",
		Patterns: []string{"./internal/orderedmap"},
		Level:    "proof",
		Assumptions: []string{
			"the zero value of orderedmap.Map is not a valid map: every contract requires wf (records != nil), established by New/FromMap/UnmarshalJSON",
			"\"any sequence of operations\" follows by induction from: every method preserves wf and relates the new view to the old one for every pre-state (no length bound)",
			"callbacks handed to Iterate/Map/Filter/Sort from outside the verified code do not write memory that existed before the call (inside the module these helpers are expanded at the call site instead)",
			"encoding/json, bytes.Buffer, sort.SliceStable, cmp.Equal are outside /repo: assumed contracts listed in trusted_base; the JSON text produced/accepted is not specified",
		},
	}
	propSpecs["C18"] = &PropSpec{
		ID:       "C18",
		Patterns: []string{"./internal/ast", "./internal/orderedmap", "./internal/tools"},
		Level:    "proof",
		Assumptions: []string{
			"values behind `any` (Default, Value, Constant, Args, hint values, ReferenceValue) are treated as immutable atoms: a copy may share them; no cog code writes through them",
			"the copy relation of every type is generated from its go/types declaration; nil and empty slices/maps are identified",
			"faithfulness and independence for values of any depth follow from the per-method obligations by the modular rule (structural induction over the finite IR tree)",
			"relations established by a callee stay valid because the caller may only write memory it allocated itself (own-memory frame obligations); IR values are finite trees",
		},
	}
}
