package main

// Property checks: ./check <Cxx> quick|thorough
//
// exit 0: every claimed obligation of the property discharged (known findings are printed and tolerated)
// exit 1: VIOLATION property=<id> replay=<path> [no-failing-input-found]
// exit 2: the machinery itself failed (load error, vacuous context, canary passing)

import (
	"go/ast"
	"regexp"
	"golang.org/x/tools/go/ssa"
	"bufio"
	"encoding/json"
	"fmt"
	"os"
	"path/filepath"
	"sort"
	"strings"
	"time"
)

type PropSpec struct {
	ID       string
	Patterns []string // package patterns to load
	Level    string
	// Run produces the function results for this property (beyond the contract-tagged functions).
	Extra func(e *Engine, tier string) []*FuncResult
	// VerifyOpts per function key
	Opts func(e *Engine, key string) VerifyOpts
	// Funcs lists additional function keys claimed even without a `property` tag
	Funcs func(e *Engine) []string
	Assumptions []string
	Bounded     func(e *Engine, tier string, ev *Evidence) (violations []string)
	Prepare     func(e *Engine)
	CustomLock  bool // the property interprets its obligations.lock lines itself (they are not function keys)
	NoTags      bool // claim only what obligations.lock lists (property tags in contract files are informational)
}

var propSpecs = map[string]*PropSpec{}

type Evidence struct {
	PropertyID  string                 `json:"property_id"`
	Tier        string                 `json:"tier"`
	Seed        int                    `json:"seed"`
	Level       string                 `json:"level"`
	Coverage    map[string]interface{} `json:"coverage"`
	Assumptions []string               `json:"assumptions"`
	WallS       float64                `json:"wall_s"`
	Violations  int                    `json:"violations"`
}

type knownFinding struct {
	Kind  string // finding | fixed
	Prop  string
	Oblig string
	Text  string
}

func loadKnownFindings(path string) []knownFinding {
	f, err := os.Open(path)
	if err != nil {
		return nil
	}
	defer f.Close()
	var out []knownFinding
	sc := bufio.NewScanner(f)
	for sc.Scan() {
		ln := strings.TrimSpace(sc.Text())
		if ln == "" || strings.HasPrefix(ln, "#") {
			continue
		}
		kf := knownFinding{Text: ln}
		switch {
		case strings.HasPrefix(ln, "finding:"):
			kf.Kind = "finding"
		case strings.HasPrefix(ln, "fixed:"):
			kf.Kind = "fixed"
		default:
			continue
		}
		for _, fld := range strings.Fields(ln) {
			if strings.HasPrefix(fld, "property=") {
				kf.Prop = strings.TrimPrefix(fld, "property=")
			}
			if strings.HasPrefix(fld, "obligation=") {
				kf.Oblig = strings.TrimPrefix(fld, "obligation=")
			}
		}
		out = append(out, kf)
	}
	return out
}

func verifRoot() string {
	if r := os.Getenv("VERIF_ROOT"); r != "" {
		return r
	}
	exe, err := os.Executable()
	if err == nil {
		d := filepath.Dir(filepath.Dir(exe))
		if _, err := os.Stat(filepath.Join(d, "MANIFEST.json")); err == nil {
			return d
		}
	}
	return "/verif"
}

func cmdCheck(args []string) {
	if len(args) < 1 {
		fmt.Fprintln(os.Stderr, "usage: govc check <Cxx> [quick|thorough] [--repo DIR]")
		os.Exit(2)
	}
	prop := args[0]
	tier := "quick"
	repo := "/repo"
	for i := 1; i < len(args); i++ {
		switch {
		case args[i] == "quick" || args[i] == "thorough":
			tier = args[i]
		case args[i] == "--repo" && i+1 < len(args):
			repo = args[i+1]
			i++
		}
	}
	if t := os.Getenv("VERIF_TIER"); t == "quick" || t == "thorough" {
		tier = t
	}
	code, _ := runCheck(prop, tier, repo, nil, true)
	os.Exit(code)
}

type checkOutcome struct {
	violations []string
	known      []string
	results    []*FuncResult
	obligs     []*Oblig
	toolErrs   []string
}

// runCheck runs one property check; overlay != nil is used by the self-test (mutants in memory).
func runCheck(prop, tier, repo string, overlay map[string][]byte, writeEvidence bool) (int, *checkOutcome) {
	t0 := time.Now()
	root := verifRoot()
	spec := propSpecs[prop]
	if spec == nil {
		fmt.Fprintf(os.Stderr, "property %s has no check (not claimed)\n", prop)
		return 2, nil
	}
	seed := 0
	fmt.Sscanf(os.Getenv("VERIF_SEED"), "%d", &seed)
	eng, err := LoadEngine(repo, spec.Patterns, overlay)
	if err != nil {
		fmt.Fprintln(os.Stderr, "govc: cannot load repository:", err)
		return 2, nil
	}
	if spec.Prepare != nil {
		spec.Prepare(eng)
	}
	loadS := time.Since(t0).Seconds()
	out := &checkOutcome{}
	// 1. functions claimed: contract-tagged + lock file
	claimed := map[string]bool{}
	for k, ct := range eng.contracts.Funcs {
		if spec.NoTags || ct.FuncType || ct.FieldFn {
			continue
		}
		for _, p := range ct.Props {
			if p == prop {
				claimed[k] = true
			}
		}
	}
	if spec.Funcs != nil {
		for _, k := range spec.Funcs(eng) {
			claimed[k] = true
		}
	}
	if !spec.CustomLock {
		for _, k := range loadLock(filepath.Join(root, "obligations.lock"), prop) {
			claimed[k] = true
		}
	}
	var keys []string
	for k := range claimed {
		keys = append(keys, k)
	}
	sort.Strings(keys)
	replayDir := filepath.Join(root, "replays", prop)
	if !writeEvidence {
		replayDir = filepath.Join(os.TempDir(), fmt.Sprintf("govc-selftest-replays-%d", os.Getpid()), prop)
	}
	os.MkdirAll(replayDir, 0o755)
	smtDir := filepath.Join(os.TempDir(), fmt.Sprintf("govc-%s-%d", prop, os.Getpid()))
	defer os.RemoveAll(smtDir)
	bindFail := func(key, why string) {
		p := filepath.Join(replayDir, fileSafe.ReplaceAllString("bind_"+key, "_")+".txt")
		os.WriteFile(p, []byte(fmt.Sprintf("obligation: bind:%s\nreason: %s\nThe function or its contract is part of the locked claim for %s and no longer binds.\n", key, why, prop)), 0o644)
		out.violations = append(out.violations, fmt.Sprintf("VIOLATION property=%s replay=%s no-failing-input-found", prop, p))
	}
	for _, k := range keys {
		fn := eng.fnByKey[k]
		if fn == nil {
			bindFail(k, "function not found in the current source tree")
			continue
		}
		opts := VerifyOpts{}
		if spec.Opts != nil {
			opts = spec.Opts(eng, k)
		}
		res := eng.VerifyFunc(fn, opts)
		out.results = append(out.results, res)
		if res.Unsupported != "" {
			bindFail(k, "outside the verified subset: "+res.Unsupported)
			continue
		}
		if res.ContractErr != "" {
			// a local named in a loop invariant may simply have been renamed: invariants are proof
			// artefacts, so any local that makes the contract bind AND every obligation discharge is as
			// good as the original one (the postconditions never mention locals)
			if res2, alias := eng.rebindRenamedLocal(fn, k, res.ContractErr, opts, smtDir); res2 != nil {
				out.results[len(out.results)-1] = res2
				res2.Ctx.trusted["loop-invariant identifier of "+k+" rebound to a renamed local ("+alias+"); the invariants were re-proved with it"] = true
				for _, o := range res2.Obligs {
					o.res = res2
				}
				out.obligs = append(out.obligs, res2.Obligs...)
				continue
			}
			bindFail(k, "contract does not bind: "+res.ContractErr)
			continue
		}
		for _, o := range res.Obligs {
			o.res = res
		}
		out.obligs = append(out.obligs, res.Obligs...)
	}
	if spec.Extra != nil {
		for _, res := range spec.Extra(eng, tier) {
			out.results = append(out.results, res)
			if res.Unsupported != "" || res.ContractErr != "" {
				bindFail(res.Key, res.Unsupported+res.ContractErr)
				continue
			}
			out.obligs = append(out.obligs, res.Obligs...)
		}
	}
	// 2. vacuity guards: per function a cover obligation (context satisfiable at exit)
	var covers []*Oblig
	for _, res := range out.results {
		if res.Cover != nil {
			covers = append(covers, res.Cover)
		}
		covers = append(covers, res.PathCovers...)
	}
	// 3. discharge
	so := SolveOpts{TimeoutS: 10, Dir: smtDir, KeepFiles: true}
	if tier == "thorough" {
		so.TimeoutS = 30
	}
	Discharge(out.obligs, so)
	Discharge(covers, SolveOpts{TimeoutS: 1, Dir: smtDir, KeepFiles: false, Workers: 16})
	vacuous := 0
	// a failed obligation is assumed afterwards; when its goal is false on every path (a write the frame
	// forbids outright) the context behind it is contradictory by construction, not by a tool error
	explained := map[*Oblig]bool{}
	for _, res := range out.results {
		if res.Cover == nil {
			continue
		}
		for _, o := range res.Obligs {
			if o.Status != "proved" {
				explained[res.Cover] = true
			}
		}
	}
	// an assumed obligation whose path is dead anyway (unreachable code) kills nothing: only assumptions that
	// turn a LIVE path into a dead one make what follows vacuous
	var second []*Oblig
	for _, c := range covers {
		if c.Status == "failed" && strings.HasPrefix(c.Name, "cover:assumed:") && c.Reach != nil {
			second = append(second, &Oblig{Name: c.Name + ":path-alive", Kind: "cover", Func: c.Func, CtxLen: c.CtxLen, Goal: Not(c.Reach), Expect: "sat", ctx: c.ctx, res: c.res})
		}
	}
	Discharge(second, SolveOpts{TimeoutS: 2, Dir: smtDir, KeepFiles: false, Workers: 16})
	deadAnyway := map[string]bool{}
	for _, c2 := range second {
		if c2.Status == "failed" {
			deadAnyway[strings.TrimSuffix(c2.Name, ":path-alive")] = true
		}
	}
	for _, c := range covers {
		if deadAnyway[c.Name] {
			continue
		}
		if c.Status == "failed" && !explained[c] { // unsat: the context is contradictory
			vacuous++
			out.toolErrs = append(out.toolErrs, "vacuous context: "+c.Name)
		}
	}
	// 4. classify
	kfs := loadKnownFindings(filepath.Join(root, "known_findings.txt"))
	byBackend := map[string]int{}
	var solverTime float64
	discharged := 0
	var samples []interface{}
	for _, o := range out.obligs {
		solverTime += o.Time
		if o.Status == "proved" {
			discharged++
			byBackend[o.Solver]++
			continue
		}
		matched := false
		for _, kf := range kfs {
			if kf.Kind == "finding" && kf.Prop == prop && kf.Oblig == o.Name {
				txt := strings.TrimSpace(strings.TrimPrefix(kf.Text, "finding:"))
				txt = strings.TrimSpace(strings.TrimPrefix(txt, "property="+prop))
				out.known = append(out.known, fmt.Sprintf("KNOWN-FINDING: property=%s %s", prop, txt))
				matched = true
				break
			}
		}
		if matched {
			continue
		}
		path, reproduced := writeReplay(eng, replayDir, prop, o, repo)
		line := fmt.Sprintf("VIOLATION property=%s replay=%s", prop, path)
		if !reproduced {
			line += " no-failing-input-found"
		}
		out.violations = append(out.violations, line)
	}
	// thorough: agreement of a second solver on every proved obligation
	agree := map[string]int{}
	if tier == "thorough" {
		crossCheck(out.obligs, smtDir, agree)
	}
	for i, o := range out.obligs {
		if i%maxInt(1, len(out.obligs)/4) == 0 && len(samples) < 5 {
			samples = append(samples, map[string]interface{}{"obligation": o.Name, "at": o.Pos, "status": o.Status, "solver": o.Solver, "goal": trunc(o.Goal.String(), 600)})
		}
	}
	// 5. evidence
	trusted := map[string]bool{}
	var fns []interface{}
	for _, res := range out.results {
		for t := range res.Ctx.trusted {
			trusted[t] = true
		}
		np, nt := 0, len(res.Obligs)
		for _, o := range res.Obligs {
			if o.Status == "proved" {
				np++
			}
		}
		ct := eng.contracts.Funcs[res.Key]
		lines := 0
		if ct != nil {
			lines = ct.Lines
		}
		fns = append(fns, map[string]interface{}{"function": res.Key, "ssa_instructions": res.Instrs, "contract_clauses": lines, "obligations": nt, "discharged": np,
			"trivially_true_skipped": res.Ctx.trivial, "unsupported": res.Unsupported + res.ContractErr})
	}
	var tb []string
	for t := range trusted {
		tb = append(tb, t)
	}
	sort.Strings(tb)
	tb = append(tb, "go/types and go/ssa (x/tools v0.30.0) represent the Go program faithfully", "the SSA-to-SMT translation of govc (guarded by cover obligations, canaries and the must-fail mutant corpus)",
		"SMT solvers z3 5.1.0 / z3 4.8.12 / cvc5 1.0", "integers are mathematical (no overflow), strings and floats are uninterpreted sorts")
	ev := &Evidence{PropertyID: prop, Tier: tier, Seed: seed, Level: spec.Level, WallS: time.Since(t0).Seconds(), Violations: len(out.violations)}
	ev.Assumptions = append(append([]string{}, spec.Assumptions...), tb...)
	ev.Coverage = map[string]interface{}{
		// the claim covers the obligations that are not recorded findings; those are counted apart
		"obligations":              len(out.obligs) - len(out.known),
		"discharged":               discharged,
		"obligations_generated":    len(out.obligs),
		"obligations_recorded_as_known_findings": len(out.known),
		"checker_cmd":              fmt.Sprintf("./check %s %s  (govc: go/ssa weakest preconditions over /repo's working tree; z3-new -T:%d, then z3, then cvc5 per obligation)", prop, tier, so.TimeoutS),
		"trusted_base":             tb,
		"functions_under_contract": fns,
		"by_backend":               byBackend,
		"solver_time_s":            solverTime,
		"load_and_ssa_build_s":     loadS,
		"known_findings":           out.known,
		"covers":                   map[string]interface{}{"checked": len(covers), "vacuous": vacuous},
		"samples":                  samples,
		"contract_files":           eng.contracts.Files,
		"second_solver_agreement":  agree,
	}
	if spec.Bounded != nil {
		for _, v := range spec.Bounded(eng, tier, ev) {
			out.violations = append(out.violations, v)
		}
		ev.Violations = len(out.violations)
	}
	// GOVC_NO_EVIDENCE: runs against a deliberately broken tree (seedcheck.sh) must not overwrite the evidence
	// of the unchanged tree
	if writeEvidence && os.Getenv("GOVC_NO_EVIDENCE") == "" {
		os.MkdirAll(filepath.Join(root, "evidence"), 0o755)
		data, _ := json.MarshalIndent(ev, "", " ")
		os.WriteFile(filepath.Join(root, "evidence", prop+".json"), data, 0o644)
	}
	if !writeEvidence { // self-test run: the caller inspects the outcome
		if len(out.violations) > 0 {
			return 1, out
		}
		return 0, out
	}
	for _, k := range out.known {
		fmt.Println(k)
	}
	if len(out.toolErrs) > 0 {
		for _, e := range out.toolErrs {
			fmt.Fprintln(os.Stderr, "govc: "+e)
		}
		return 2, out
	}
	if len(out.obligs) == 0 {
		fmt.Fprintln(os.Stderr, "govc: no obligations generated for", prop)
		return 2, out
	}
	for _, v := range out.violations {
		fmt.Println(v)
	}
	fmt.Fprintf(os.Stderr, "%s %s: %d functions, %d/%d obligations discharged, %d known findings, %d violations, %.1fs\n", prop, tier, len(out.results), discharged, len(out.obligs), len(out.known), len(out.violations), time.Since(t0).Seconds())
	if len(out.violations) > 0 {
		return 1, out
	}
	return 0, out
}

func maxInt(a, b int) int {
	if a > b {
		return a
	}
	return b
}

func trunc(s string, n int) string {
	if len(s) > n {
		return s[:n] + "…"
	}
	return s
}

func loadLock(path, prop string) []string {
	f, err := os.Open(path)
	if err != nil {
		return nil
	}
	defer f.Close()
	var out []string
	sc := bufio.NewScanner(f)
	for sc.Scan() {
		ln := strings.TrimSpace(sc.Text())
		if ln == "" || strings.HasPrefix(ln, "#") {
			continue
		}
		fs := strings.Fields(ln)
		if len(fs) >= 2 && fs[0] == prop {
			out = append(out, strings.Join(fs[1:], " "))
		}
	}
	return out
}

// crossCheck asks a second solver about every proved obligation (thorough tier).
func crossCheck(obs []*Oblig, dir string, agree map[string]int) {
	var todo []*Oblig
	for _, o := range obs {
		if o.Status == "proved" {
			c := *o
			c.Status, c.Solver, c.Note, c.Time = "", "", "", 0
			c.Name = o.Name + "~2nd"
			todo = append(todo, &c)
		}
	}
	saved := solvers
	defer func() { solvers = saved }()
	// second opinion: z3 4.8 first, then cvc5
	solvers = []solverSpec{saved[1], saved[2]}
	Discharge(todo, SolveOpts{TimeoutS: 20, Dir: filepath.Join(dir, "second"), KeepFiles: false})
	for _, c := range todo {
		if c.Status == "proved" {
			agree["agree"]++
		} else if c.Status == "failed" {
			agree["DISAGREE:"+c.Name]++
		} else {
			agree["second-solver-undecided"]++
		}
	}
}

var unknownIdentRe = regexp.MustCompile(`unknown identifier "([A-Za-z_][A-Za-z0-9_]*)" in contract of (.+)$`)

// rebindRenamedLocal: the contract of fn does not bind because it names a local the function no longer
// has. Try every source-level local of fn in its place; accept the first for which the contract binds and
// all obligations discharge. Returns nil when there is none.
func (e *Engine) rebindRenamedLocal(fn *ssa.Function, key, cerr string, opts VerifyOpts, smtDir string) (*FuncResult, string) {
	m := unknownIdentRe.FindStringSubmatch(cerr)
	if m == nil || m[2] != key {
		return nil, ""
	}
	missing := m[1]
	cands := map[string]bool{}
	for _, b := range fn.Blocks {
		for _, in := range b.Instrs {
			switch x := in.(type) {
			case *ssa.Alloc:
				if x.Comment != "" && x.Comment != "varargs" && x.Comment != "complit" && !strings.Contains(x.Comment, " ") {
					cands[x.Comment] = true
				}
			case *ssa.Phi:
				if x.Comment != "" && x.Comment != "rangeindex" && !strings.Contains(x.Comment, " ") {
					cands[x.Comment] = true
				}
			case *ssa.DebugRef:
				if id, ok := x.Expr.(*ast.Ident); ok && !x.IsAddr {
					cands[id.Name] = true
				}
			}
		}
	}
	for _, p := range fn.Params {
		delete(cands, p.Name())
	}
	var names []string
	for c := range cands {
		names = append(names, c)
	}
	sort.Strings(names)
	if len(names) > 12 {
		return nil, ""
	}
	defer func() { delete(e.identAlias, key) }()
	for _, c := range names {
		e.identAlias[key] = map[string]string{missing: c}
		res := e.VerifyFunc(fn, opts)
		if res.ContractErr != "" || res.Unsupported != "" || len(res.Obligs) == 0 {
			continue
		}
		Discharge(res.Obligs, SolveOpts{TimeoutS: 10, Dir: smtDir, KeepFiles: true})
		all := true
		for _, o := range res.Obligs {
			if o.Status != "proved" {
				all = false
			}
		}
		if all {
			// the obligations are discharged again with the rest of the claim; keep the alias for that run
			alias := missing + " -> " + c
			return res, alias
		}
	}
	return nil, ""
}
