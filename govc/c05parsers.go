package main

// C05, parser side - "a name recorded as declared always gets its object, or the parse fails".
// The three parsers record a definition name (jsonschema: g.seen; openapi/simplecue: the object map) before
// they walk the definition, so that recursive references terminate; a reference to a recorded name is
// then emitted without further ado. If the walk fails, the name stays recorded without an object: that is
// harmless only because the error aborts the whole parse. The structural obligations here pin exactly that:
// in every function of the parser package from which the declaring function is reachable, the error result
// of every call to such a function is PROPAGATED - returned as is, or tested against nil with the non-nil
// branch leading only to returns of a non-nil error and never back to the call (no `continue`) - or tested
// with errors.Is against a sentinel that no function of the package ever produces (the sentinel's only
// uses are errors.Is arguments). Decided on the SSA form by the generator; no SMT query.

import (
	"fmt"
	"go/token"
	"go/types"
	"sort"
	"strings"

	"golang.org/x/tools/go/ssa"
)

type parserSpec struct {
	pkg     string   // package id as funcKey prints it
	declare []string // keys of the functions that record a name as declared
}

var c05Parsers = []parserSpec{
	{"jsonschema", []string{"jsonschema.(*generator).declareDefinition"}},
	{"openapi", []string{"openapi.(*generator).declareDefinition"}},
}

func isNilConst(v ssa.Value) bool {
	c, ok := v.(*ssa.Const)
	return ok && c.Value == nil
}

func returnsError(fn *ssa.Function) bool {
	r := fn.Signature.Results()
	if r.Len() == 0 {
		return false
	}
	return types.Identical(r.At(r.Len()-1).Type(), types.Universe.Lookup("error").Type())
}

// sentinelOnlyTested: every use of the package-level error variable g is a load that feeds errors.Is as
// its target (second argument) - plus the one store of its initialiser.
func sentinelOnlyTested(prog *ssa.Program, g *ssa.Global) bool {
	for fn := range allFunctions(prog) {
		if fn.Pkg != g.Pkg {
			continue
		}
		for _, b := range fn.Blocks {
			for _, in := range b.Instrs {
				for _, op := range in.Operands(nil) {
					if *op != ssa.Value(g) {
						continue
					}
					switch x := in.(type) {
					case *ssa.Store:
						if fn.Name() != "init" {
							return false
						}
					case *ssa.UnOp:
						for _, r := range *x.Referrers() {
							if _, dbg := r.(*ssa.DebugRef); dbg {
								continue
							}
							c, ok := r.(*ssa.Call)
							if !ok {
								return false
							}
							sc := c.Call.StaticCallee()
							if sc == nil || sc.Pkg == nil || sc.Pkg.Pkg.Path() != "errors" || sc.Name() != "Is" || len(c.Call.Args) != 2 || c.Call.Args[1] != ssa.Value(x) {
								return false
							}
						}
					default:
						return false
					}
				}
			}
		}
	}
	return true
}

func allFunctions(prog *ssa.Program) map[*ssa.Function]bool {
	out := map[*ssa.Function]bool{}
	var add func(fn *ssa.Function)
	add = func(fn *ssa.Function) {
		if fn == nil || out[fn] {
			return
		}
		out[fn] = true
		for _, an := range fn.AnonFuncs {
			add(an)
		}
	}
	for _, p := range prog.AllPackages() {
		for _, m := range p.Members {
			switch x := m.(type) {
			case *ssa.Function:
				add(x)
			case *ssa.Type:
				for _, t := range []types.Type{x.Type(), types.NewPointer(x.Type())} {
					ms := prog.MethodSets.MethodSet(t)
					for i := 0; i < ms.Len(); i++ {
						add(prog.MethodValue(ms.At(i)))
					}
				}
			}
		}
	}
	return out
}

// errorPropagates: the error value e (result of call c, in function fn) is propagated in the sense above.
// why is the first reason found when it is not.
func (e *Engine) errorPropagates(fn *ssa.Function, c *ssa.Call, ev ssa.Value) (ok bool, why string) {
	seen := map[ssa.Value]bool{}
	tested := false
	returned := false
	var visit func(v ssa.Value) (bool, string)
	visit = func(v ssa.Value) (bool, string) {
		if seen[v] {
			return true, ""
		}
		seen[v] = true
		refs := v.Referrers()
		if refs == nil {
			return true, ""
		}
		for _, r := range *refs {
			switch x := r.(type) {
			case *ssa.Return:
				returned = true
			case *ssa.Phi:
				if ok, why := visit(x); !ok {
					return false, why
				}
			case *ssa.BinOp:
				if (x.Op != token.NEQ && x.Op != token.EQL) || !(isNilConst(x.X) || isNilConst(x.Y)) {
					continue
				}
				for _, rr := range *x.Referrers() {
					iff, isIf := rr.(*ssa.If)
					if !isIf {
						continue
					}
					tested = true
					nonNil := iff.Block().Succs[0]
					if x.Op == token.EQL {
						nonNil = iff.Block().Succs[1]
					}
					// every path from the non-nil branch ends in a return of a non-nil error and never
					// comes back to the call
					done := map[*ssa.BasicBlock]bool{}
					work := []*ssa.BasicBlock{nonNil}
					for len(work) > 0 {
						b := work[len(work)-1]
						work = work[:len(work)-1]
						if done[b] {
							continue
						}
						done[b] = true
						if b == c.Block() {
							return false, "the failing branch loops back to the call (the error is dropped)"
						}
						if len(b.Instrs) > 0 {
							if ret, isRet := b.Instrs[len(b.Instrs)-1].(*ssa.Return); isRet {
								if len(ret.Results) == 0 || isNilConst(ret.Results[len(ret.Results)-1]) {
									return false, "the failing branch returns a nil error"
								}
							}
						}
						work = append(work, b.Succs...)
					}
				}
			case *ssa.Call:
				sc := x.Call.StaticCallee()
				if sc != nil && sc.Pkg != nil && sc.Pkg.Pkg.Path() == "errors" && sc.Name() == "Is" && len(x.Call.Args) == 2 && x.Call.Args[0] == v {
					ld, isLoad := x.Call.Args[1].(*ssa.UnOp)
					g, isG := (ssa.Value)(nil), false
					if isLoad {
						g, isG = ld.X.(*ssa.Global)
					}
					if !isG || !sentinelOnlyTested(e.prog, g.(*ssa.Global)) {
						return false, "the error is compared with errors.Is against a value the package can produce, and may be swallowed"
					}
				}
			case *ssa.MakeInterface, *ssa.ChangeInterface:
				// wrapped into a fmt.Errorf argument list and the like: not a control-flow use
			case *ssa.Store:
				// stored into a variadic argument slice (fmt.Errorf) - not a control-flow use
			}
		}
		return true, ""
	}
	if ok, why := visit(ev); !ok {
		return false, why
	}
	if !tested && !returned {
		return false, "the error is neither returned nor tested"
	}
	return true, ""
}

func (e *Engine) parserDeclaresResult() *FuncResult {
	ctx := newCtx(e, e.anyFunction())
	ctx.fnKey = "c05-parsers-declared-names"
	res := &FuncResult{Key: "c05-parsers-declared-names", Ctx: ctx}
	for _, ps := range c05Parsers {
		// functions of the package, and the static call graph among them
		fns := map[string]*ssa.Function{}
		for k, fn := range e.fnByKey {
			if strings.HasPrefix(k, ps.pkg+".") && len(fn.Blocks) > 0 {
				fns[k] = fn
			}
		}
		callees := map[string][]string{}
		for k, fn := range fns {
			for _, b := range fn.Blocks {
				for _, in := range b.Instrs {
					if c, ok := in.(*ssa.Call); ok {
						if sc := c.Call.StaticCallee(); sc != nil {
							if _, in := fns[funcKey(sc)]; in {
								callees[k] = append(callees[k], funcKey(sc))
							}
						}
					}
				}
			}
		}
		reach := map[string]bool{}
		for _, d := range ps.declare {
			if fns[d] != nil {
				reach[d] = true
			}
			ctx.addOblig("flow", ps.pkg+":declaring-function-exists:"+d, BoolLit(fns[d] != nil), "internal/"+ps.pkg+"/generator.go")
		}
		for changed := true; changed; {
			changed = false
			for k := range fns {
				if reach[k] {
					continue
				}
				for _, c := range callees[k] {
					if reach[c] {
						reach[k], changed = true, true
						break
					}
				}
			}
		}
		var keys []string
		for k := range fns {
			keys = append(keys, k)
		}
		sort.Strings(keys)
		for _, k := range keys {
			fn := fns[k]
			ord := map[string]int{}
			for _, b := range fn.Blocks {
				for _, in := range b.Instrs {
					c, ok := in.(*ssa.Call)
					if !ok {
						continue
					}
					sc := c.Call.StaticCallee()
					if sc == nil || !reach[funcKey(sc)] || !returnsError(sc) {
						continue
					}
					short := funcKey(sc)[strings.LastIndex(funcKey(sc), ".")+1:]
					ord[short]++
					name := ps.pkg + ":" + k[len(ps.pkg)+1:] + ":error-of-" + short
					if ord[short] > 1 {
						name += "#" + itoa(ord[short])
					}
					name += "-is-propagated"
					// the error value: the last component of the result tuple (or the result itself)
					var ev ssa.Value
					nres := sc.Signature.Results().Len()
					if nres == 1 {
						ev = c
					} else {
						for _, r := range *c.Referrers() {
							if ex, isEx := r.(*ssa.Extract); isEx && ex.Index == nres-1 {
								ev = ex
							}
						}
					}
					ok2, why := false, "the error result is discarded"
					if ev != nil {
						ok2, why = e.errorPropagates(fn, c, ev)
					} else {
						// the whole tuple returned as is (return g.walkRef(schema))
						for _, r := range *c.Referrers() {
							if _, isRet := r.(*ssa.Return); isRet {
								ok2 = true
							}
						}
					}
					pp := e.prog.Fset.Position(c.Pos())
					o := ctx.addOblig("flow", name, BoolLit(ok2), fmt.Sprintf("%s:%d", shortPath(pp.Filename), pp.Line))
					if !ok2 {
						o.Why = why
					}
				}
			}
		}
	}
	res.Obligs = ctx.obligs
	return res
}
