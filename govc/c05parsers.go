package main

// C05, parser side - "a name recorded as declared always gets its object, or the parse fails".
// The three parsers record a definition name (jsonschema: g.seen; openapi/simplecue: the object map) before
// they walk the definition, so that recursive references terminate; a reference to a recorded name is
// then emitted without further ado. If the walk fails, the name stays recorded without an object: that is
// harmless only because the error aborts the whole parse. The structural obligations here pin exactly that:
// in every function of the parser package from which the declaring function is reachable, the error result
// of every call to such a function is PROPAGATED - returned as is, or tested against nil with the non-nil
// branch leading only to returns of a non-nil error and never back to the call (no `continue`) - or tested
// with errors.Is against a sentinel that no function of the package ever produces (the sentinel's only
// uses are errors.Is arguments). Decided on the SSA form by the generator; no SMT query.

import (
	"fmt"
	"go/token"
	"go/types"
	"sort"
	"strings"

	"golang.org/x/tools/go/ssa"
)

type parserSpec struct {
	pkg     string   // package id as funcKey prints it
	declare []string // keys of the functions that record a name as declared
}

var c05Parsers = []parserSpec{
	{"jsonschema", []string{"jsonschema.(*generator).declareDefinition"}},
	{"openapi", []string{"openapi.(*generator).declareDefinition"}},
}

func isNilConst(v ssa.Value) bool {
	c, ok := v.(*ssa.Const)
	return ok && c.Value == nil
}

func returnsError(fn *ssa.Function) bool {
	r := fn.Signature.Results()
	if r.Len() == 0 {
		return false
	}
	return types.Identical(r.At(r.Len()-1).Type(), types.Universe.Lookup("error").Type())
}

// sentinelOnlyTested: every use of the package-level error variable g is a load that feeds errors.Is as
// its target (second argument) - plus the one store of its initialiser.
func sentinelOnlyTested(prog *ssa.Program, g *ssa.Global) bool {
	for fn := range allFunctions(prog) {
		if fn.Pkg != g.Pkg {
			continue
		}
		for _, b := range fn.Blocks {
			for _, in := range b.Instrs {
				for _, op := range in.Operands(nil) {
					if *op != ssa.Value(g) {
						continue
					}
					switch x := in.(type) {
					case *ssa.Store:
						if fn.Name() != "init" {
							return false
						}
					case *ssa.UnOp:
						for _, r := range *x.Referrers() {
							if _, dbg := r.(*ssa.DebugRef); dbg {
								continue
							}
							c, ok := r.(*ssa.Call)
							if !ok {
								return false
							}
							sc := c.Call.StaticCallee()
							if sc == nil || sc.Pkg == nil || sc.Pkg.Pkg.Path() != "errors" || sc.Name() != "Is" || len(c.Call.Args) != 2 || c.Call.Args[1] != ssa.Value(x) {
								return false
							}
						}
					default:
						return false
					}
				}
			}
		}
	}
	return true
}

func allFunctions(prog *ssa.Program) map[*ssa.Function]bool {
	out := map[*ssa.Function]bool{}
	var add func(fn *ssa.Function)
	add = func(fn *ssa.Function) {
		if fn == nil || out[fn] {
			return
		}
		out[fn] = true
		for _, an := range fn.AnonFuncs {
			add(an)
		}
	}
	for _, p := range prog.AllPackages() {
		for _, m := range p.Members {
			switch x := m.(type) {
			case *ssa.Function:
				add(x)
			case *ssa.Type:
				for _, t := range []types.Type{x.Type(), types.NewPointer(x.Type())} {
					ms := prog.MethodSets.MethodSet(t)
					for i := 0; i < ms.Len(); i++ {
						add(prog.MethodValue(ms.At(i)))
					}
				}
			}
		}
	}
	return out
}

// errorPropagates: the error value e (result of call c, in function fn) is propagated in the sense above.
// why is the first reason found when it is not.
func (e *Engine) errorPropagates(fn *ssa.Function, c *ssa.Call, ev ssa.Value) (ok bool, why string) {
	seen := map[ssa.Value]bool{}
	tested := false
	returned := false
	var visit func(v ssa.Value) (bool, string)
	visit = func(v ssa.Value) (bool, string) {
		if seen[v] {
			return true, ""
		}
		seen[v] = true
		refs := v.Referrers()
		if refs == nil {
			return true, ""
		}
		for _, r := range *refs {
			switch x := r.(type) {
			case *ssa.Return:
				returned = true
			case *ssa.Phi:
				if ok, why := visit(x); !ok {
					return false, why
				}
			case *ssa.BinOp:
				if (x.Op != token.NEQ && x.Op != token.EQL) || !(isNilConst(x.X) || isNilConst(x.Y)) {
					continue
				}
				for _, rr := range *x.Referrers() {
					iff, isIf := rr.(*ssa.If)
					if !isIf {
						continue
					}
					tested = true
					nonNil := iff.Block().Succs[0]
					if x.Op == token.EQL {
						nonNil = iff.Block().Succs[1]
					}
					// every path from the non-nil branch ends in a return of a non-nil error and never
					// comes back to the call
					done := map[*ssa.BasicBlock]bool{}
					work := []*ssa.BasicBlock{nonNil}
					for len(work) > 0 {
						b := work[len(work)-1]
						work = work[:len(work)-1]
						if done[b] {
							continue
						}
						done[b] = true
						if b == c.Block() {
							return false, "the failing branch loops back to the call (the error is dropped)"
						}
						if len(b.Instrs) > 0 {
							if ret, isRet := b.Instrs[len(b.Instrs)-1].(*ssa.Return); isRet {
								if len(ret.Results) == 0 || isNilConst(ret.Results[len(ret.Results)-1]) {
									return false, "the failing branch returns a nil error"
								}
							}
						}
						work = append(work, b.Succs...)
					}
				}
			case *ssa.Call:
				sc := x.Call.StaticCallee()
				if sc != nil && sc.Pkg != nil && sc.Pkg.Pkg.Path() == "errors" && sc.Name() == "Is" && len(x.Call.Args) == 2 && x.Call.Args[0] == v {
					ld, isLoad := x.Call.Args[1].(*ssa.UnOp)
					g, isG := (ssa.Value)(nil), false
					if isLoad {
						g, isG = ld.X.(*ssa.Global)
					}
					if !isG || !sentinelOnlyTested(e.prog, g.(*ssa.Global)) {
						return false, "the error is compared with errors.Is against a value the package can produce, and may be swallowed"
					}
				}
			case *ssa.MakeInterface, *ssa.ChangeInterface:
				// wrapped into a fmt.Errorf argument list and the like: not a control-flow use
			case *ssa.Store:
				// stored into a variadic argument slice (fmt.Errorf) - not a control-flow use
			}
		}
		return true, ""
	}
	if ok, why := visit(ev); !ok {
		return false, why
	}
	if !tested && !returned {
		return false, "the error is neither returned nor tested"
	}
	return true, ""
}

func (e *Engine) parserDeclaresResult() *FuncResult {
	ctx := newCtx(e, e.anyFunction())
	ctx.fnKey = "c05-parsers-declared-names"
	res := &FuncResult{Key: "c05-parsers-declared-names", Ctx: ctx}
	for _, ps := range c05Parsers {
		seeds := map[string]bool{}
		for _, d := range ps.declare {
			seeds[d] = true
			ctx.addOblig("flow", ps.pkg+":declaring-function-exists:"+d, BoolLit(e.fnByKey[d] != nil), "internal/"+ps.pkg+"/generator.go")
		}
		e.errorPropagationObligs(ctx, []string{ps.pkg}, seeds)
	}
	res.Obligs = ctx.obligs
	return res
}

// errorPropagationObligs: within the given packages, for every function from which one of the seed
// functions is reachable through static calls, the error result of every call to such a function is
// propagated (see errorPropagates): one obligation flow:<pkg>:<function>:error-of-<callee>-is-propagated
// per call. Returns the number of obligations generated.
func (e *Engine) errorPropagationObligs(ctx *Ctx, pkgs []string, seeds map[string]bool) int {
	inPkgs := func(k string) (string, bool) {
		for _, p := range pkgs {
			if strings.HasPrefix(k, p+".") {
				return p, true
			}
		}
		return "", false
	}
	fns := map[string]*ssa.Function{}
	for k, fn := range e.fnByKey {
		if _, ok := inPkgs(k); ok && len(fn.Blocks) > 0 {
			fns[k] = fn
		}
	}
	callees := map[string][]string{}
	for k, fn := range fns {
		for _, b := range fn.Blocks {
			for _, in := range b.Instrs {
				if c, ok := in.(*ssa.Call); ok {
					if sc := c.Call.StaticCallee(); sc != nil {
						if _, in := fns[funcKey(sc)]; in {
							callees[k] = append(callees[k], funcKey(sc))
						}
					}
				}
			}
		}
	}
	reach := map[string]bool{}
	for d := range seeds {
		if fns[d] != nil {
			reach[d] = true
		}
	}
	for changed := true; changed; {
		changed = false
		for k := range fns {
			if reach[k] {
				continue
			}
			for _, c := range callees[k] {
				if reach[c] {
					reach[k], changed = true, true
					break
				}
			}
		}
	}
	var keys []string
	for k := range fns {
		keys = append(keys, k)
	}
	sort.Strings(keys)
	n := 0
	for _, k := range keys {
		fn := fns[k]
		pkg, _ := inPkgs(k)
		ord := map[string]int{}
		for _, b := range fn.Blocks {
			for _, in := range b.Instrs {
				c, ok := in.(*ssa.Call)
				if !ok {
					continue
				}
				sc := c.Call.StaticCallee()
				if sc == nil || !reach[funcKey(sc)] || !returnsError(sc) {
					continue
				}
				short := funcKey(sc)[strings.LastIndex(funcKey(sc), ".")+1:]
				ord[short]++
				name := pkg + ":" + k[len(pkg)+1:] + ":error-of-" + short
				if ord[short] > 1 {
					name += "#" + itoa(ord[short])
				}
				name += "-is-propagated"
				var ev ssa.Value
				nres := sc.Signature.Results().Len()
				if nres == 1 {
					ev = c
				} else {
					for _, r := range *c.Referrers() {
						if ex, isEx := r.(*ssa.Extract); isEx && ex.Index == nres-1 {
							ev = ex
						}
					}
				}
				ok2, why := false, "the error result is discarded"
				if ev != nil {
					ok2, why = e.errorPropagates(fn, c, ev)
				} else {
					for _, r := range *c.Referrers() {
						if _, isRet := r.(*ssa.Return); isRet {
							ok2 = true
						}
					}
				}
				pp := e.prog.Fset.Position(c.Pos())
				o := ctx.addOblig("flow", name, BoolLit(ok2), fmt.Sprintf("%s:%d", shortPath(pp.Filename), pp.Line))
				if !ok2 {
					o.Why = why
				}
				n++
			}
		}
	}
	return n
}

// ---- every reference a parser constructs names a declared object (or another package) ----------------
//
// Sinks are the calls ast.NewRef(pkg, name, ...) in the jsonschema and simplecue front ends. For each, a
// forward MUST analysis over the CFG of the enclosing function decides that on every path to the sink
//   D(name): name was handed to the declaring function (declareDefinition / declareObject), or the true
//            edge of `Objects.Has(name)` was taken, or
//   F(pkg):  pkg was compared with another string and the "different" edge was taken (the reference goes to
//            another package: outside the claim).
// A function that is only ever called through the generator's externalReferenceFunc field may rely on the
// pair (its package parameter, its name parameter) satisfying D ∨ F at entry - every dynamic call through
// that field is then a sink of its own. Values are identified as SSA values: a name rebuilt by any function
// between the declaration and the reference is a different value and fails.

var c05RefParsers = []struct {
	pkg     string
	declare map[string]bool
	dynamic string // name of the func-typed field through which the external-reference helpers are called
}{
	{"jsonschema", map[string]bool{"jsonschema.(*generator).declareDefinition": true}, ""},
	{"simplecue", map[string]bool{"simplecue.(*generator).declareObject": true}, "externalReferenceFunc"},
}

func isHasCall(v ssa.Value, name ssa.Value) bool {
	c, ok := v.(*ssa.Call)
	if !ok {
		return false
	}
	sc := c.Call.StaticCallee()
	if sc == nil || !strings.HasSuffix(funcKey(sc), ").Has") || len(c.Call.Args) != 2 {
		return false
	}
	return c.Call.Args[1] == name
}

// edgeGen: does taking the edge from b to its idx-th successor establish D(name) or F(pkg)?
func edgeGen(b *ssa.BasicBlock, idx int, pkg, name ssa.Value) bool {
	if len(b.Instrs) == 0 {
		return false
	}
	iff, ok := b.Instrs[len(b.Instrs)-1].(*ssa.If)
	if !ok {
		return false
	}
	cond := iff.Cond
	neg := false
	for {
		u, isNot := cond.(*ssa.UnOp)
		if !isNot || u.Op != token.NOT {
			break
		}
		cond, neg = u.X, !neg
	}
	takenTrue := (idx == 0) != neg
	if isHasCall(cond, name) {
		return takenTrue
	}
	if bo, isBin := cond.(*ssa.BinOp); isBin && (bo.X == pkg || bo.Y == pkg) {
		if _, isConstPkg := pkg.(*ssa.Const); isConstPkg {
			return false
		}
		if bo.Op == token.EQL {
			return !takenTrue
		}
		if bo.Op == token.NEQ {
			return takenTrue
		}
	}
	return false
}

func (e *Engine) sinkHolds(fn *ssa.Function, sink ssa.Instruction, pkg, name ssa.Value, declare map[string]bool, entryOK bool) bool {
	declaresBefore := func(b *ssa.BasicBlock, upto ssa.Instruction) bool {
		for _, in := range b.Instrs {
			if in == upto {
				return false
			}
			if c, ok := in.(*ssa.Call); ok {
				if sc := c.Call.StaticCallee(); sc != nil && declare[funcKey(sc)] && len(c.Call.Args) >= 2 && c.Call.Args[1] == name {
					return true
				}
				if addsObjectNamed(c, name) {
					return true
				}
			}
		}
		return false
	}
	if phi, isPhi := name.(*ssa.Phi); isPhi && !entryOK {
		// a name chosen among several: each choice is declared on its own edge, before the choice is made
		if !(phi.Block() == sink.Block() || phi.Block().Dominates(sink.Block())) {
			return false
		}
		for i, ed := range phi.Edges {
			pred := phi.Block().Preds[i]
			if len(pred.Instrs) == 0 || !e.sinkHolds(fn, pred.Instrs[len(pred.Instrs)-1], pkg, ed, declare, false) {
				return false
			}
		}
		return true
	}
	in := map[*ssa.BasicBlock]bool{}
	out := map[*ssa.BasicBlock]bool{}
	for _, b := range fn.Blocks {
		in[b], out[b] = true, true
	}
	entry := fn.Blocks[0]
	for changed := true; changed; {
		changed = false
		for _, b := range fn.Blocks {
			v := true
			if b == entry {
				v = entryOK
			} else {
				for _, p := range b.Preds {
					for i, s := range p.Succs {
						if s == b && !(out[p] || edgeGen(p, i, pkg, name)) {
							v = false
						}
					}
				}
			}
			o := v || declaresBefore(b, nil)
			if v != in[b] || o != out[b] {
				in[b], out[b], changed = v, o, true
			}
		}
	}
	return in[sink.Block()] || declaresBefore(sink.Block(), sink)
}

func (e *Engine) parserRefsResult() *FuncResult {
	ctx := newCtx(e, e.anyFunction())
	ctx.fnKey = "c05-parsers-references"
	res := &FuncResult{Key: "c05-parsers-references", Ctx: ctx}
	for _, ps := range c05RefParsers {
		var keys []string
		for k, fn := range e.fnByKey {
			if strings.HasPrefix(k, ps.pkg+".") && len(fn.Blocks) > 0 {
				keys = append(keys, k)
			}
		}
		sort.Strings(keys)
		// functions used as values (only reachable through a func-typed field) and never called statically
		calledStatically := map[string]bool{}
		usedAsValue := map[string]bool{}
		for _, k := range keys {
			for _, b := range e.fnByKey[k].Blocks {
				for _, in := range b.Instrs {
					if c, ok := in.(*ssa.Call); ok {
						if sc := c.Call.StaticCallee(); sc != nil {
							calledStatically[funcKey(sc)] = true
						}
					}
					if mc, ok := in.(*ssa.MakeClosure); ok {
						if bf, isFn := mc.Fn.(*ssa.Function); isFn && strings.HasSuffix(bf.Name(), "$bound") && bf.Object() != nil {
							if m := e.prog.FuncValue(bf.Object().(*types.Func)); m != nil {
								usedAsValue[funcKey(m)] = true
							}
						}
					}
				}
			}
		}
		nsinks := 0
		for _, k := range keys {
			fn := e.fnByKey[k]
			viaField := ps.dynamic != "" && usedAsValue[k] && !calledStatically[k]
			ord := 0
			for _, b := range fn.Blocks {
				for _, in := range b.Instrs {
					if st, isStore := in.(*ssa.Store); isStore {
						// schema.EntryPoint = name
						if fa, isFA := st.Addr.(*ssa.FieldAddr); isFA {
							if pt, isP := fa.X.Type().Underlying().(*types.Pointer); isP {
								if nt, isN := pt.Elem().(*types.Named); isN && nt.Obj().Name() == "Schema" && nt.Obj().Pkg().Name() == "ast" &&
									nt.Underlying().(*types.Struct).Field(fa.Field).Name() == "EntryPoint" {
									nsinks++
									holds := e.sinkHolds(fn, st, ssa.Value(nil), st.Val, ps.declare, false)
									pp := e.prog.Fset.Position(st.Pos())
									ctx.addOblig("flow", ps.pkg+":"+k[len(ps.pkg)+1:]+":entry-point-names-a-declared-object", BoolLit(holds), fmt.Sprintf("%s:%d", shortPath(pp.Filename), pp.Line))
								}
							}
						}
						continue
					}
					c, ok := in.(*ssa.Call)
					if !ok {
						continue
					}
					var pkgV, nameV ssa.Value
					label := ""
					if sc := c.Call.StaticCallee(); sc != nil && funcKey(sc) == "ast.NewRef" && len(c.Call.Args) >= 2 {
						pkgV, nameV = c.Call.Args[0], c.Call.Args[1]
						label = "NewRef" + itoa(ord)
						ord++
					} else if ps.dynamic != "" && sc == nil && !c.Call.IsInvoke() && len(c.Call.Args) >= 2 {
						// a call through g.<dynamic>
						if ld, isLoad := c.Call.Value.(*ssa.UnOp); isLoad {
							if fa, isFA := ld.X.(*ssa.FieldAddr); isFA {
								st := fa.X.Type().Underlying().(*types.Pointer).Elem().Underlying().(*types.Struct)
								if st.Field(fa.Field).Name() == ps.dynamic {
									pkgV, nameV = c.Call.Args[0], c.Call.Args[1]
									label = "call-through-" + ps.dynamic
								}
							}
						}
					}
					if label == "" {
						continue
					}
					nsinks++
					entryOK := false
					if viaField && len(fn.Params) >= 3 {
						// receiver, package, name: the pair handed over by the caller
						entryOK = pkgV == ssa.Value(fn.Params[1]) && nameV == ssa.Value(fn.Params[2])
					}
					holds := entryOK || e.sinkHolds(fn, c, pkgV, nameV, ps.declare, false)
					pp := e.prog.Fset.Position(c.Pos())
					ctx.addOblig("flow", ps.pkg+":"+k[len(ps.pkg)+1:]+":"+label+":names-a-declared-object-or-another-package", BoolLit(holds), fmt.Sprintf("%s:%d", shortPath(pp.Filename), pp.Line))
				}
			}
		}
		ctx.addOblig("flow", ps.pkg+":reference-constructors-enumerated", BoolLit(nsinks > 0), "internal/"+ps.pkg+"/generator.go")
		var ds []string
		for d := range ps.declare {
			ds = append(ds, d)
		}
		sort.Strings(ds)
		for _, d := range ds {
			fn := e.fnByKey[d]
			ctx.addOblig("flow", ps.pkg+":"+d[len(ps.pkg)+1:]+":a-name-declared-without-error-has-its-object", BoolLit(fn != nil && e.declaredGetsObject(fn)), "internal/"+ps.pkg+"/generator.go")
		}
	}
	res.Obligs = ctx.obligs
	return res
}

// addsObjectNamed: c is schema.AddObject(obj) with obj an object literal whose Name field is stored from name.
func addsObjectNamed(c *ssa.Call, name ssa.Value) bool {
	sc := c.Call.StaticCallee()
	if sc == nil || funcKey(sc) != "ast.(*Schema).AddObject" || len(c.Call.Args) != 2 {
		return false
	}
	ld, isLoad := c.Call.Args[1].(*ssa.UnOp)
	if !isLoad {
		return false
	}
	al, isAlloc := ld.X.(*ssa.Alloc)
	if !isAlloc {
		return false
	}
	named := false
	for _, r := range *al.Referrers() {
		fa, isFA := r.(*ssa.FieldAddr)
		if !isFA {
			continue
		}
		st := al.Type().Underlying().(*types.Pointer).Elem().Underlying().(*types.Struct)
		if st.Field(fa.Field).Name() != "Name" {
			continue
		}
		for _, rr := range *fa.Referrers() {
			if s, isStore := rr.(*ssa.Store); isStore {
				named = s.Val == name
			}
		}
	}
	return named
}

// declaredGetsObject: in the declaring function (receiver, name, ...) every return of a nil error is
// dominated by a call of (*Schema).AddObject whose object literal is named by the name parameter itself,
// or lies behind the "already recorded" test on that same parameter (a map lookup or Objects.Has).
func (e *Engine) declaredGetsObject(fn *ssa.Function) bool {
	if len(fn.Params) < 2 {
		return false
	}
	name := ssa.Value(fn.Params[1])
	var addBlocks []*ssa.BasicBlock
	for _, b := range fn.Blocks {
		for _, in := range b.Instrs {
			c, ok := in.(*ssa.Call)
			if !ok {
				continue
			}
			sc := c.Call.StaticCallee()
			if sc == nil || funcKey(sc) != "ast.(*Schema).AddObject" || len(c.Call.Args) != 2 {
				continue
			}
			// the argument is a load of a local object literal: its Name field must be stored from the parameter
			ld, isLoad := c.Call.Args[1].(*ssa.UnOp)
			if !isLoad {
				continue
			}
			al, isAlloc := ld.X.(*ssa.Alloc)
			if !isAlloc {
				continue
			}
			named := false
			for _, r := range *al.Referrers() {
				fa, isFA := r.(*ssa.FieldAddr)
				if !isFA {
					continue
				}
				st := al.Type().Underlying().(*types.Pointer).Elem().Underlying().(*types.Struct)
				if st.Field(fa.Field).Name() != "Name" {
					continue
				}
				for _, rr := range *fa.Referrers() {
					if s, isStore := rr.(*ssa.Store); isStore {
						named = s.Val == name
					}
				}
			}
			if named {
				addBlocks = append(addBlocks, b)
			}
		}
	}
	// blocks entered by the "already recorded" edge
	var seenBlocks []*ssa.BasicBlock
	for _, b := range fn.Blocks {
		if len(b.Instrs) == 0 {
			continue
		}
		iff, ok := b.Instrs[len(b.Instrs)-1].(*ssa.If)
		if !ok {
			continue
		}
		if isHasCall(iff.Cond, name) {
			seenBlocks = append(seenBlocks, b.Succs[0])
		}
		if ex, isEx := iff.Cond.(*ssa.Extract); isEx && ex.Index == 1 {
			if lk, isLk := ex.Tuple.(*ssa.Lookup); isLk && lk.CommaOk && lk.Index == name {
				seenBlocks = append(seenBlocks, b.Succs[0])
			}
		}
	}
	if len(addBlocks) == 0 {
		return false
	}
	for _, b := range fn.Blocks {
		if len(b.Instrs) == 0 {
			continue
		}
		ret, ok := b.Instrs[len(b.Instrs)-1].(*ssa.Return)
		if !ok || len(ret.Results) == 0 || !isNilConst(ret.Results[len(ret.Results)-1]) {
			continue
		}
		okRet := false
		for _, a := range addBlocks {
			if a.Dominates(b) {
				okRet = true
			}
		}
		for _, s := range seenBlocks {
			if s.Dominates(b) && len(s.Preds) == 1 {
				okRet = true
			}
		}
		if !okRet {
			return false
		}
	}
	return true
}

// C20 - a rejected document stays rejected: the three strict loaders report an unknown key / an empty action
// as an error; every function of the yaml and codegen packages between such a loader and the pipeline has to
// hand that error on (same notion of propagation as for the parsers above). A deferred Close() that
// overwrites the named error result, an error that is only logged, a `continue` on failure - all of them turn
// a rejected configuration file into a silently ignored one.
func (e *Engine) strictErrorsPropagateResult(loaders map[string]bool) *FuncResult {
	ctx := newCtx(e, e.anyFunction())
	ctx.fnKey = "c20-errors-propagate"
	res := &FuncResult{Key: "c20-errors-propagate", Ctx: ctx}
	n := e.errorPropagationObligs(ctx, []string{"yaml", "codegen"}, loaders)
	ctx.addOblig("flow", "callers-of-the-strict-loaders-enumerated", BoolLit(n >= 3), "internal/yaml, internal/codegen")
	res.Obligs = ctx.obligs
	return res
}
