package main

// Discharging obligations: one SMT-LIB file per obligation, z3-new first, z3 4.8 and cvc5 as
// fall-backs, in parallel over all cores.

import (
	"context"
	"fmt"
	"os"
	"os/exec"
	"path/filepath"
	"regexp"
	"strings"
	"sync"
	"time"
)

type SolveOpts struct {
	TimeoutS  int
	Workers   int
	Dir       string // where SMT files go
	AllSolvers bool  // thorough: ask every solver, record agreement
	Seeds     []int
	KeepFiles bool
	noSplit   bool
}

func (o *Oblig) SMT(model bool, logic bool) string {
	var sb strings.Builder
	sb.WriteString("; obligation " + o.Name + "\n; " + o.Pos + "\n")
	if model {
		sb.WriteString("(set-option :produce-models true)\n")
	}
	if logic {
		sb.WriteString("(set-logic ALL)\n")
	}
	sb.WriteString(o.ctx.Preamble())
	for _, c := range o.ctx.cmds[:o.CtxLen] {
		sb.WriteString(c + "\n")
	}
	sb.WriteString("(assert (not " + o.Goal.String() + "))\n(check-sat)\n")
	if model {
		sb.WriteString("(get-model)\n")
	}
	return sb.String()
}

var fileSafe = regexp.MustCompile(`[^A-Za-z0-9_.-]+`)

func runSolver(name string, args []string, file string, timeout time.Duration) (string, string, float64) {
	ctx, cancel := context.WithTimeout(context.Background(), timeout+2*time.Second)
	defer cancel()
	t0 := time.Now()
	cmd := exec.CommandContext(ctx, name, append(args, file)...)
	out, _ := cmd.CombinedOutput()
	el := time.Since(t0).Seconds()
	s := strings.TrimSpace(string(out))
	first := s
	if i := strings.IndexByte(s, '\n'); i >= 0 {
		first = strings.TrimSpace(s[:i])
	}
	switch first {
	case "sat", "unsat", "unknown":
	default:
		if ctx.Err() != nil || strings.Contains(first, "timeout") || strings.Contains(s, "interrupted") {
			first = "timeout"
		} else if first == "" {
			first = "timeout"
		} else {
			first = "error: " + first
		}
	}
	return first, s, el
}

type solverSpec struct {
	name  string
	bin   string
	args  func(timeoutS int, seed int) []string
	logic bool
}

var solvers = []solverSpec{
	{"z3-5.1.0", "z3-new", func(t, seed int) []string {
		a := []string{fmt.Sprintf("-T:%d", t)}
		if seed != 0 {
			a = append(a, fmt.Sprintf("smt.random_seed=%d", seed), fmt.Sprintf("sat.random_seed=%d", seed))
		}
		return a
	}, false},
	{"z3-4.8.12", "z3", func(t, seed int) []string {
		a := []string{fmt.Sprintf("-T:%d", t)}
		if seed != 0 {
			a = append(a, fmt.Sprintf("smt.random_seed=%d", seed))
		}
		return a
	}, false},
	{"cvc5-1.0", "cvc5", func(t, seed int) []string {
		a := []string{fmt.Sprintf("--tlimit=%d", t*1000)}
		if seed != 0 {
			a = append(a, fmt.Sprintf("--seed=%d", seed))
		}
		return a
	}, true},
}

func dischargeOne(o *Oblig, opts SolveOpts) {
	base := filepath.Join(opts.Dir, fileSafe.ReplaceAllString(o.Name, "_"))
	if len(base) > 200 {
		base = base[:200]
	}
	file := base + ".smt2"
	fileL := base + ".logic.smt2"
	os.WriteFile(file, []byte(o.SMT(false, false)), 0o644)
	want := o.Expect
	timeout := time.Duration(opts.TimeoutS) * time.Second
	var notes []string
	for si, sv := range solvers {
		fl := file
		if sv.logic {
			os.WriteFile(fileL, []byte(o.SMT(false, true)), 0o644)
			fl = fileL
		}
		res, _, el := runSolver(sv.bin, sv.args(opts.TimeoutS, 0), fl, timeout)
		o.Time += el
		notes = append(notes, fmt.Sprintf("%s=%s(%.2fs)", sv.name, res, el))
		if res == want {
			o.Status = "proved"
			o.Solver = sv.name
			break
		}
		if res == "sat" && want == "unsat" {
			// counterexample: fetch the model from this solver
			mf := base + ".model.smt2"
			os.WriteFile(mf, []byte(o.SMT(true, sv.logic)), 0o644)
			_, full, _ := runSolver(sv.bin, sv.args(opts.TimeoutS, 0), mf, timeout)
			o.Status = "failed"
			o.Solver = sv.name
			o.Model = full
			if !opts.KeepFiles {
				os.Remove(mf)
			}
			break
		}
		if res == "unsat" && want == "sat" {
			o.Status = "failed"
			o.Solver = sv.name
			break
		}
		if want == "sat" {
			// covers: only a refutation (unsat) matters; an undecided cover is not retried on the other solvers
			break
		}
		_ = si
	}
	if o.Status == "" && want == "unsat" && !opts.noSplit {
		// tactic: a conjunctive goal is proved when each conjunct is (same context, same solvers)
		if parts := splitGoal(o.Goal, 64); len(parts) > 1 {
			all := true
			for pi, part := range parts {
				sub := &Oblig{Name: fmt.Sprintf("%s.part%d", o.Name, pi), Kind: o.Kind, Func: o.Func, CtxLen: o.CtxLen, Goal: part, Expect: "unsat", ctx: o.ctx, Pos: o.Pos}
				so := opts
				so.noSplit = true
				dischargeOne(sub, so)
				o.Time += sub.Time
				if sub.Status == "failed" {
					o.Status, o.Solver, o.Model = "failed", sub.Solver, sub.Model
					notes = append(notes, fmt.Sprintf("conjunct %d/%d refuted: %s", pi+1, len(parts), sub.Note))
					all = false
					break
				}
				if sub.Status != "proved" {
					notes = append(notes, fmt.Sprintf("conjunct %d/%d: %s", pi+1, len(parts), sub.Note))
					all = false
					break
				}
			}
			if all {
				o.Status = "proved"
				o.Solver = fmt.Sprintf("split(%d)", len(parts))
			}
		}
	}
	if o.Status == "" {
		o.Status = "unknown"
	}
	o.Note = strings.Join(notes, " ")
	if !opts.KeepFiles && o.Status == "proved" {
		os.Remove(file)
		os.Remove(fileL)
	}
}

// EvalInModel asks the solver that found the counterexample for the values of some terms.
func (o *Oblig) EvalInModel(terms []*Term) []string {
	if o.Status != "failed" || len(terms) == 0 {
		return nil
	}
	var sv *solverSpec
	for i := range solvers {
		if solvers[i].name == o.Solver {
			sv = &solvers[i]
		}
	}
	if sv == nil {
		return nil
	}
	var sb strings.Builder
	sb.WriteString("(set-option :produce-models true)\n")
	if sv.logic {
		sb.WriteString("(set-logic ALL)\n")
	}
	sb.WriteString(o.ctx.Preamble())
	for _, c := range o.ctx.cmds[:o.CtxLen] {
		sb.WriteString(c + "\n")
	}
	sb.WriteString("(assert (not " + o.Goal.String() + "))\n(check-sat)\n")
	for _, t := range terms {
		sb.WriteString("(get-value (" + t.String() + "))\n")
	}
	f, err := os.CreateTemp("", "govc-eval-*.smt2")
	if err != nil {
		return nil
	}
	defer os.Remove(f.Name())
	f.WriteString(sb.String())
	f.Close()
	_, full, _ := runSolver(sv.bin, sv.args(10, 0), f.Name(), 10*time.Second)
	lines := strings.Split(full, "\n")
	if len(lines) < 1 || strings.TrimSpace(lines[0]) != "sat" {
		return nil
	}
	// each get-value answers ((term value)); terms may span lines, so parse by balancing parens
	rest := strings.Join(lines[1:], " ")
	var out []string
	depth, start := 0, -1
	for i, c := range rest {
		if c == '(' {
			if depth == 0 {
				start = i
			}
			depth++
		} else if c == ')' {
			depth--
			if depth == 0 && start >= 0 {
				ans := rest[start : i+1]
				// strip "((" term " " value "))": value is the last s-expression
				inner := strings.TrimSpace(ans[2 : len(ans)-2])
				out = append(out, lastSexpr(inner))
				start = -1
			}
		}
	}
	return out
}

func lastSexpr(s string) string {
	s = strings.TrimSpace(s)
	if strings.HasSuffix(s, ")") {
		depth := 0
		for i := len(s) - 1; i >= 0; i-- {
			if s[i] == ')' {
				depth++
			} else if s[i] == '(' {
				depth--
				if depth == 0 {
					return s[i:]
				}
			}
		}
	}
	if i := strings.LastIndexAny(s, " \t"); i >= 0 {
		return s[i+1:]
	}
	return s
}

func smtInt(v string) (int64, bool) {
	v = strings.TrimSpace(v)
	neg := false
	if strings.HasPrefix(v, "(-") {
		neg = true
		v = strings.TrimSpace(strings.TrimSuffix(strings.TrimPrefix(v, "(-"), ")"))
	}
	var n int64
	if _, err := fmt.Sscanf(v, "%d", &n); err != nil {
		return 0, false
	}
	if neg {
		n = -n
	}
	return n, true
}

// Discharge runs all obligations through the solvers.
func Discharge(obs []*Oblig, opts SolveOpts) {
	if opts.Workers <= 0 {
		opts.Workers = 8
	}
	if opts.TimeoutS <= 0 {
		opts.TimeoutS = 10
	}
	os.MkdirAll(opts.Dir, 0o755)
	var wg sync.WaitGroup
	ch := make(chan *Oblig)
	for i := 0; i < opts.Workers; i++ {
		wg.Add(1)
		go func() {
			defer wg.Done()
			for o := range ch {
				dischargeOne(o, opts)
			}
		}()
	}
	for _, o := range obs {
		ch <- o
	}
	close(ch)
	wg.Wait()
}


// splitGoal: the conjuncts of a goal (through implications and universal quantifiers), at most max.
func splitGoal(g *Term, max int) []*Term {
	var parts []*Term
	switch {
	case g.Op == "and":
		for _, a := range g.Args {
			parts = append(parts, splitGoal(a, max)...)
		}
	case g.Op == "=>" && len(g.Args) == 2:
		for _, q := range splitGoal(g.Args[1], max) {
			parts = append(parts, Implies(g.Args[0], q))
		}
	case g.Op == "forall" && len(g.Args) == 1:
		sub := splitGoal(g.Args[0], max)
		if len(sub) > 1 {
			for _, q := range sub {
				parts = append(parts, Forall(g.Bound, q, nil))
			}
		}
	}
	if len(parts) <= 1 || len(parts) > max {
		return []*Term{g}
	}
	return parts
}
