package main

// Must-fail corpus: every mutant is a realistic breaking edit of /repo applied in memory through
// packages.Config.Overlay; the property's check must then report a violation that names one of the
// expected obligations. Known findings double as canaries (their suppression is exercised on every run).

import (
	"encoding/json"
	"fmt"
	"os"
	"path/filepath"
	"strings"
)

type Mutant struct {
	ID       string   `json:"id"`
	Property string   `json:"property"`
	File     string   `json:"file"` // relative to the repo
	Find     string   `json:"find"`
	Replace  string   `json:"replace"`
	Find2    string   `json:"find2"`
	Replace2 string   `json:"replace2"`
	Expect   []string `json:"expect"` // substrings, one of which must occur in a failed obligation's name
	Note     string   `json:"note"`
	Harmless bool     `json:"harmless"` // a behaviour-preserving edit: the check must stay silent (exit 0, no violation)
}

func runSelftest(args []string) int {
	root := verifRoot()
	repo := "/repo"
	only := ""
	for i := 0; i < len(args); i++ {
		if args[i] == "--repo" && i+1 < len(args) {
			repo = args[i+1]
			i++
		} else {
			only = args[i]
		}
	}
	data, err := os.ReadFile(filepath.Join(root, "selftest", "mutants.json"))
	if err != nil {
		fmt.Fprintln(os.Stderr, "selftest:", err)
		return 2
	}
	var ms []Mutant
	if err := json.Unmarshal(data, &ms); err != nil {
		fmt.Fprintln(os.Stderr, "selftest:", err)
		return 2
	}
	bad := 0
	n := 0
	for _, m := range ms {
		if only != "" && m.Property != only && m.ID != only {
			continue
		}
		n++
		path := filepath.Join(repo, m.File)
		src, err := os.ReadFile(path)
		if err != nil {
			fmt.Printf("MUTANT %-40s ERROR %v\n", m.ID, err)
			bad++
			continue
		}
		if strings.Count(string(src), m.Find) != 1 {
			fmt.Printf("MUTANT %-40s ERROR pattern occurs %d times in %s\n", m.ID, strings.Count(string(src), m.Find), m.File)
			bad++
			continue
		}
		mut := strings.Replace(string(src), m.Find, m.Replace, 1)
		if m.Find2 != "" {
			if strings.Count(mut, m.Find2) != 1 {
				fmt.Printf("MUTANT %-40s ERROR second pattern occurs %d times\n", m.ID, strings.Count(mut, m.Find2))
				bad++
				continue
			}
			mut = strings.Replace(mut, m.Find2, m.Replace2, 1)
		}
		code, out := runCheck(m.Property, "quick", repo, map[string][]byte{path: []byte(mut)}, false)
		if m.Harmless {
			if code == 0 && out != nil && len(out.violations) == 0 {
				fmt.Printf("HARMLESS %-38s silent\n", m.ID)
			} else {
				fmt.Printf("HARMLESS %-38s FALSE ALARM exit=%d\n", m.ID, code)
				if out != nil {
					for _, v := range out.violations {
						fmt.Println("    ", v)
					}
					for _, v := range out.toolErrs {
						fmt.Println("    ", v)
					}
				}
				bad++
			}
			continue
		}
		hit := ""
		if out != nil {
			for _, o := range out.obligs {
				if o.Status == "proved" {
					continue
				}
				for _, e := range m.Expect {
					if strings.Contains(o.Name, e) {
						hit = o.Name
					}
				}
			}
			if hit == "" && len(m.Expect) == 0 && len(out.violations) > 0 {
				hit = out.violations[0]
			}
			for _, v := range out.violations {
				for _, e := range m.Expect {
					if strings.Contains(v, fileSafe.ReplaceAllString(e, "_")) && hit == "" {
						hit = v
					}
				}
			}
		}
		if code == 1 && hit != "" {
			fmt.Printf("MUTANT %-40s caught   (%s)\n", m.ID, hit)
		} else {
			fmt.Printf("MUTANT %-40s MISSED   exit=%d\n", m.ID, code)
			if out != nil {
				for _, v := range out.violations {
					fmt.Println("    ", v)
				}
			}
			bad++
		}
	}
	fmt.Printf("selftest: %d edits (breaking ones must be caught, harmless ones must stay silent), %d wrong\n", n, bad)
	if bad > 0 {
		return 1
	}
	return 0
}
