package main

import (
	"fmt"
	"os"
)

func runSelftest(args []string) int {
	fmt.Fprintln(os.Stderr, "selftest: not built yet")
	return 0
}
