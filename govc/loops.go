package main

// Loop cut: assert invariants on entry, havoc what the loop may modify, assume invariants;
// assert invariants on every back edge.

import (
	"fmt"
	"strings"
	"go/token"
	"go/types"
	"sort"

	"golang.org/x/tools/go/ssa"
)

type loopEnv struct {
	phis    map[*ssa.Phi]Val
	visited map[*ssa.Range]*Term
}

func (f *Frame) loopContract(li *loopInfo) *LoopContract {
	var own *LoopContract
	if f.contract != nil {
		own = f.contract.Loops[li.ord]
	}
	if f.parent == nil {
		return own
	}
	// a loop of an inlined helper: the top-level function's contract may add invariants for it
	top := f.top()
	if !li.inlSet {
		li.inlSet = true
		li.inlSeq = top.inlLoops
		top.inlLoops++
	}
	var extra *LoopContract
	if top.contract != nil && top.contract.InlinedLoops != nil {
		extra = top.contract.InlinedLoops[li.inlSeq]
	}
	switch {
	case own == nil:
		return extra
	case extra == nil:
		return own
	}
	return &LoopContract{Invariants: append(append([]Clause{}, own.Invariants...), extra.Invariants...)}
}

// invariants evaluates the loop's invariants (auto + contract) in the given state.
func (f *Frame) invariants(li *loopInfo, st *State, env *loopEnv, positive bool, site string) (names []string, terms []*Term) {
	// auto invariants: range index lower bound
	for _, in := range li.header.Instrs {
		ph, ok := in.(*ssa.Phi)
		if !ok {
			break
		}
		if ph.Comment == "rangeindex" {
			v := env.phis[ph]
			if t, ok := v.(*Term); ok {
				names = append(names, "auto:rangeindex")
				terms = append(terms, Ge(t, IntLit(-1)))
				// upper bound: the header compares phi+1 against a loop-invariant length
				for _, in2 := range li.header.Instrs {
					cmp, ok := in2.(*ssa.BinOp)
					if !ok || cmp.Op != token.LSS {
						continue
					}
					inc, ok := cmp.X.(*ssa.BinOp)
					if !ok || inc.Op != token.ADD || inc.X != ssa.Value(ph) {
						continue
					}
					if nv, ok := f.vals[cmp.Y]; ok {
						if nt, ok := nv.(*Term); ok {
							names = append(names, "auto:rangeindex-upper")
							terms = append(terms, Lt(t, Ite(Ge(nt, IntLit(0)), nt, IntLit(0))))
						}
					} else if c, ok := cmp.Y.(*ssa.Const); ok {
						names = append(names, "auto:rangeindex-upper")
						terms = append(terms, Lt(t, f.constVal(c).(*Term)))
					}
				}
			}
		}
	}
	lc := f.loopContract(li)
	if f.parent == nil && len(f.autoInv) > 0 {
		merged := &LoopContract{Invariants: append([]Clause{}, f.autoInv...)}
		if lc != nil {
			merged.Invariants = append(merged.Invariants, lc.Invariants...)
			merged.Wit, merged.WitParam = lc.Wit, lc.WitParam
		}
		lc = merged
	}
	if lc == nil {
		return
	}
	for i, inv := range lc.Invariants {
		se := f.specEnv(st, f.entry)
		se.loop = li
		se.lenv = env
		se.positive = positive
		se.site = site
		se.wit, se.witParam = inv.Wit, inv.WitParam
		se.presite = "pre"
		t := se.evalBool(inv.Expr)
		label := inv.Label
		if label == "" {
			label = fmt.Sprint(i)
		}
		names = append(names, label)
		terms = append(terms, t)
	}
	return
}

// tryUnroll: a range loop over a slice whose length is a literal (at most 4) is executed iteration by
// iteration instead of being cut - exact, no invariant needed (typical: a variadic option list that
// the caller passed zero or one element to).
func (f *Frame) tryUnroll(li *loopInfo, st *State, r *Term) (*State, bool) {
	if lc := f.loopContract(li); lc != nil && len(lc.Invariants) > 0 && f.depth == 0 {
		// the function under verification proves its own invariants; an expanded callee whose range has a
		// literal length at this call site is simply unrolled
		return nil, false
	}
	h := li.header
	var idx *ssa.Phi
	for _, in := range h.Instrs {
		ph, ok := in.(*ssa.Phi)
		if !ok {
			break
		}
		if ph.Comment == "rangeindex" {
			idx = ph
		}
	}
	if idx == nil {
		return nil, false
	}
	n := int64(-1)
	for _, in := range h.Instrs {
		cmp, ok := in.(*ssa.BinOp)
		if !ok || cmp.Op != token.LSS {
			continue
		}
		inc, ok := cmp.X.(*ssa.BinOp)
		if !ok || inc.Op != token.ADD || inc.X != ssa.Value(idx) {
			continue
		}
		var bound *Term
		if c, isC := cmp.Y.(*ssa.Const); isC {
			bound, _ = f.constVal(c).(*Term)
		} else if v, okv := f.vals[cmp.Y]; okv {
			bound, _ = v.(*Term)
		}
		if bound != nil {
			if bv, isLit := bound.intVal(); isLit {
				n = bv
			}
		}
	}
	if n < 0 || n > 4 {
		return nil, false
	}
	phis := map[*ssa.Phi]Val{}
	for _, in := range h.Instrs {
		ph, ok := in.(*ssa.Phi)
		if !ok {
			break
		}
		phis[ph] = f.vals[ph]
	}
	cur := st
	for it := int64(0); it < n; it++ {
		lr := &loopRun{header: h, phiIn: phis}
		saved := f.loopRun
		f.loopRun = lr
		f.run(cur.clone(), r)
		f.loopRun = saved
		for _, ex := range lr.exits {
			if ex.Op != "false" {
				return nil, false
			}
		}
		if len(lr.backs) == 0 {
			return nil, false
		}
		var es []edge
		for _, b := range lr.backs {
			es = append(es, edge{cond: b.cond, st: b.st})
		}
		next := es[0].st
		if len(es) > 1 {
			next, _ = f.mergeStates(es)
		}
		np := map[*ssa.Phi]Val{}
		for ph := range phis {
			var vs []Val
			for _, b := range lr.backs {
				vs = append(vs, b.phis[ph])
			}
			np[ph] = f.mergeVals(es, vs, "unrolled")
		}
		cur, phis = next, np
	}
	for ph, v := range phis {
		f.vals[ph] = v
	}
	return cur, true
}

func (f *Frame) enterLoop(li *loopInfo, st *State, r *Term, edges []edge) *State {
	h := li.header
	// ghost visited sets for map ranges driven from this header
	var ranges []*ssa.Range
	for _, in := range h.Instrs {
		if nx, ok := in.(*ssa.Next); ok {
			if rg, ok := nx.Iter.(*ssa.Range); ok {
				if _, isMap := f.subst(rg.X.Type()).Underlying().(*types.Map); isMap {
					ranges = append(ranges, rg)
				}
			}
		}
	}
	env := &loopEnv{phis: map[*ssa.Phi]Val{}, visited: map[*ssa.Range]*Term{}}
	for _, in := range h.Instrs {
		ph, ok := in.(*ssa.Phi)
		if !ok {
			break
		}
		env.phis[ph] = f.vals[ph]
	}
	for _, rg := range ranges {
		it := f.vals[rg].(RangeIterVal)
		ks, _ := elemOfArr(it.Dom0.S)
		env.visited[rg] = ConstArr(ArrS(ks, SBool), False)
	}
	// 1. invariants hold on entry
	names, terms := f.invariants(li, st, env, false, "")
	for i, t := range terms {
		f.check("inv-init", fmt.Sprintf("loop%d:%s", li.ord, names[i]), r, t, h.Instrs[0].Pos())
	}
	// 2. havoc
	st = st.clone()
	mod := f.loopMods(li)
	if mod.top {
		f.havocTop(st)
	} else {
		// components reached only through callees that write nothing pre-existing keep everything
		// that was allocated before the loop
		before := copyHeap(st.heap)
		beforeBase, beforeAlloc := st.base, st.alloc
		// Components touched only through callees that write nothing pre-existing are not havoc'd
		// at all: memory allocated during the iterations was unconstrained before the loop. The
		// callee-owned ghost is the exception (its marking axioms range over all references).
		all := map[string]Sort{}
		for k, v := range mod.comps {
			all[k] = v
		}
		var names []string
		if s, ok := mod.viaFresh[coComp]; ok {
			if _, direct := mod.comps[coComp]; !direct {
				all[coComp] = s
				names = append(names, coComp)
			}
		}
		f.havocComps(st, all)
		f.assumeFrameSinceEntry(st, all)
		sort.Strings(names)
		for _, k := range names {
			b, ok := before[k]
			if !ok {
				b = f.ctx.constant(fmt.Sprintf("%s@%d", k, beforeBase), all[k])
			}
			f.ctx.assume(f.frameAxiom(k, b, st.heap[k], nil, beforeAlloc))
		}
		if co, ok := st.heap[coComp]; ok && f.top().trackOwn {
			r := Atom("r!co", SInt)
			f.ctx.assume(Forall([]*Term{r}, Implies(Ge(r, st.alloc), Not(Select(co, r))), []*Term{Select(co, r)}))
		}
	}
	for a, paths := range mod.locals {
		cur, ok := st.locals[a]
		if !ok {
			cur = f.zero(derefT(a.Type()))
		}
		st.locals[a] = f.havocPaths(st, cur, derefT(a.Type()), paths, a.Comment)
	}
	for _, in := range h.Instrs {
		ph, ok := in.(*ssa.Phi)
		if !ok {
			break
		}
		old := f.vals[ph]
		switch o := old.(type) {
		case *Term:
			name := ph.Comment
			if name == "" {
				name = "phi"
			}
			nv := f.ctx.fresh(name, o.S)
			f.vals[ph] = nv
			f.assumeWf(st, nv, ph.Type())
		default:
			// non-term loop-carried values must be loop-invariant
			for _, e := range ph.Edges {
				if ev, ok := f.vals[e]; ok {
					_ = ev
				}
			}
			panic(unsupported("loop-carried non-term value " + ph.Name()))
		}
		env.phis[ph] = f.vals[ph]
	}
	if f.visited == nil {
		f.visited = map[*ssa.Range]*Term{}
	}
	for _, rg := range ranges {
		it := f.vals[rg].(RangeIterVal)
		ks, _ := elemOfArr(it.Dom0.S)
		vis := f.ctx.fresh("visited", ArrS(ks, SBool))
		kb := Atom("kq", ks)
		f.ctx.assume(Forall([]*Term{kb}, Implies(Select(vis, kb), Select(it.Dom0, kb)), []*Term{Select(vis, kb)}))
		f.visited[rg] = vis
		env.visited[rg] = vis
	}
	if lc := f.loopContract(li); lc != nil && lc.Wit != nil {
		f.activeWit, f.activeWitEnv, f.activeWitLoop = lc, env, li
	}
	// 3. assume invariants
	_, terms = f.invariants(li, st, env, true, fmt.Sprintf("loop%d", li.ord))
	for _, t := range terms {
		f.ctx.assume(Implies(r, t))
	}
	return st
}

func (f *Frame) backEdge(li *loopInfo, from *ssa.BasicBlock, cond *Term, st *State) {
	h := li.header
	env := &loopEnv{phis: map[*ssa.Phi]Val{}, visited: map[*ssa.Range]*Term{}}
	for _, in := range h.Instrs {
		ph, ok := in.(*ssa.Phi)
		if !ok {
			break
		}
		idx := -1
		for i, p := range h.Preds {
			if p == from {
				idx = i
			}
		}
		env.phis[ph] = f.get(ph.Edges[idx])
	}
	for rg, vis := range f.visited {
		if k, ok := f.curKey[rg]; ok {
			env.visited[rg] = Store(vis, k, True)
		} else {
			env.visited[rg] = vis
		}
	}
	names, terms := f.invariants(li, st, env, false, "")
	for i, t := range terms {
		f.check("inv-pres", fmt.Sprintf("loop%d:%s", li.ord, names[i]), cond, t, h.Instrs[0].Pos())
	}
}

// havocPaths replaces the sub-values at the given field paths by fresh constants.
func (f *Frame) havocPaths(st *State, cur *Term, t types.Type, paths [][]int, hint string) *Term {
	for _, p := range paths {
		if len(p) == 0 {
			nv := f.ctx.fresh(hint, cur.S)
			f.assumeWf(st, nv, t)
			return nv
		}
	}
	// group by first field
	byField := map[int][][]int{}
	for _, p := range paths {
		byField[p[0]] = append(byField[p[0]], p[1:])
	}
	si := f.structInfo(t)
	fs := make([]*Term, len(si.Fields))
	for i := range si.Fields {
		fs[i] = si.Get(cur, i)
	}
	var keys []int
	for k := range byField {
		keys = append(keys, k)
	}
	sort.Ints(keys)
	for _, k := range keys {
		fs[k] = f.havocPaths(st, fs[k], si.Fields[k].Type, byField[k], hint+"."+si.Fields[k].Name)
	}
	return si.Mk(fs)
}

// ---- modification analysis -----------------------------------------------------------------------

type modSet struct {
	top    bool
	comps  map[string]Sort
	locals map[*ssa.Alloc][][]int
	viaFresh map[string]Sort // components touched only through callees that write nothing pre-existing
	inFresh  bool
}

func (f *Frame) loopMods(li *loopInfo) *modSet {
	ms := &modSet{comps: map[string]Sort{}, locals: map[*ssa.Alloc][][]int{}}
	var blocks []*ssa.BasicBlock
	for b := range li.body {
		blocks = append(blocks, b)
	}
	sort.Slice(blocks, func(i, j int) bool { return blocks[i].Index < blocks[j].Index })
	for _, b := range blocks {
		for _, in := range b.Instrs {
			f.instrMods(in, ms)
		}
	}
	return ms
}

// rootOf walks an address back to its root pointer, returning the field path (until an index).
func rootOf(v ssa.Value) (root ssa.Value, path []int, indexed bool, first ssa.Value) {
	first = v
	for {
		switch x := v.(type) {
		case *ssa.FieldAddr:
			if !indexed {
				path = append([]int{x.Field}, path...)
			}
			first = x
			v = x.X
			continue
		case *ssa.IndexAddr:
			// everything collected so far is below an index: forget it
			path = nil
			indexed = true
			first = x
			v = x.X
			if _, isSlice := x.X.Type().Underlying().(*types.Slice); isSlice {
				return x.X, nil, true, x
			}
			continue
		}
		return v, path, indexed, first
	}
}

func (f *Frame) addComp(ms *modSet, name string, s Sort) {
	if ms.inFresh {
		if ms.viaFresh == nil {
			ms.viaFresh = map[string]Sort{}
		}
		ms.viaFresh[name] = s
		return
	}
	ms.comps[name] = s
}

func (f *Frame) addStoreMods(addr ssa.Value, ms *modSet) {
	root, path, indexed, first := rootOf(addr)
	if a, ok := root.(*ssa.Alloc); ok && (!a.Heap || f.ctx.eng.privateCell(a)) {
		if indexed {
			// store into a local array cell below path: havoc whole prefix
		}
		ms.locals[a] = append(ms.locals[a], path)
		return
	}
	if g, ok := root.(*ssa.Global); ok {
		name := "G." + g.Pkg.Pkg.Name() + "." + g.Name()
		f.addComp(ms, name, f.sortOf(derefT(g.Type())))
		return
	}
	f.addTargetMods(root, first, ms)
}

func (f *Frame) addTargetMods(root ssa.Value, first ssa.Value, ms *modSet) {
	rt := f.subst(root.Type())
	switch u := rt.Underlying().(type) {
	case *types.Slice:
		es := f.sortOf(u.Elem())
		f.addComp(ms, f.eName(u.Elem()), ArrS(SInt, ArrS(SInt, es)))
	case *types.Pointer:
		et := u.Elem()
		if _, ok := et.Underlying().(*types.Struct); ok {
			si := f.structInfo(et)
			if fa, ok := first.(*ssa.FieldAddr); ok && fa.X == root {
				f.addComp(ms, compF(si, fa.Field), ArrS(SInt, si.Fields[fa.Field].Sort))
				return
			}
			for i := range si.Fields {
				f.addComp(ms, compF(si, i), ArrS(SInt, si.Fields[i].Sort))
			}
			return
		}
		if at, ok := et.Underlying().(*types.Array); ok {
			es := f.sortOf(at.Elem())
			f.addComp(ms, f.eName(at.Elem()), ArrS(SInt, ArrS(SInt, es)))
			return
		}
		s := f.sortOf(et)
		f.addComp(ms, f.pName(et), ArrS(SInt, s))
	default:
		ms.top = true
	}
}

func (f *Frame) addMapMods(mt *types.Map, ms *modSet, dom, val bool) {
	ks, vs := f.sortOf(mt.Key()), f.sortOf(mt.Elem())
	if dom {
		f.addComp(ms, f.mdName(mt.Key(), mt.Elem()), ArrS(SInt, ArrS(ks, SBool)))
	}
	if val {
		f.addComp(ms, f.mvName(mt.Key(), mt.Elem()), ArrS(SInt, ArrS(ks, vs)))
	}
}

func (f *Frame) instrMods(in ssa.Instruction, ms *modSet) {
	switch x := in.(type) {
	case *ssa.Store:
		f.addStoreMods(x.Addr, ms)
	case *ssa.MapUpdate:
		f.addMapMods(f.subst(x.Map.Type()).Underlying().(*types.Map), ms, true, true)
	case *ssa.Alloc:
		if x.Heap {
			// initialisation of a fresh object writes its components
			et := f.subst(derefT(x.Type()))
			if _, ok := et.Underlying().(*types.Struct); ok {
				si := f.structInfo(et)
				for i := range si.Fields {
					f.addComp(ms, compF(si, i), ArrS(SInt, si.Fields[i].Sort))
				}
			} else if at, ok := et.Underlying().(*types.Array); ok {
				es := f.sortOf(at.Elem())
				f.addComp(ms, f.eName(at.Elem()), ArrS(SInt, ArrS(SInt, es)))
			} else {
				s := f.sortOf(et)
				f.addComp(ms, f.pName(et), ArrS(SInt, s))
			}
		} else {
			ms.locals[x] = append(ms.locals[x], nil)
		}
		if x.Heap && f.ctx.eng.privateCell(x) {
			ms.locals[x] = append(ms.locals[x], nil)
		}
	case *ssa.MakeSlice:
		es := f.sortOf(f.subst(x.Type()).Underlying().(*types.Slice).Elem())
		f.addComp(ms, f.eName(f.subst(x.Type()).Underlying().(*types.Slice).Elem()), ArrS(SInt, ArrS(SInt, es)))
	case *ssa.MakeMap:
		f.addMapMods(f.subst(x.Type()).Underlying().(*types.Map), ms, true, false)
	case *ssa.Convert:
		// string -> []byte allocates
	case ssa.CallInstruction:
		f.callMods(x.Common(), ms)
	}
}

// callMods adds the effects of a call.
func (f *Frame) callMods(cc *ssa.CallCommon, ms *modSet) {
	if b, ok := cc.Value.(*ssa.Builtin); ok {
		switch b.Name() {
		case "append":
			st := f.subst(cc.Args[0].Type()).Underlying().(*types.Slice)
			es := f.sortOf(st.Elem())
			f.addComp(ms, f.eName(st.Elem()), ArrS(SInt, ArrS(SInt, es)))
		case "delete":
			f.addMapMods(f.subst(cc.Args[0].Type()).Underlying().(*types.Map), ms, true, false)
		case "copy":
			st := f.subst(cc.Args[0].Type()).Underlying().(*types.Slice)
			es := f.sortOf(st.Elem())
			f.addComp(ms, f.eName(st.Elem()), ArrS(SInt, ArrS(SInt, es)))
		case "clear":
			ms.top = true
		}
		return
	}
	if cc.IsInvoke() {
		if !f.ctx.eng.invokeIsPure(cc) {
			ms.top = true
		}
		return
	}
	callee := cc.StaticCallee()
	if callee == nil {
		// closure value: try to resolve statically through our value map
		if v, ok := f.vals[cc.Value]; ok {
			if cv, ok := v.(ClosureVal); ok {
				callee = cv.Fn
			}
		}
		if mc, ok := cc.Value.(*ssa.MakeClosure); ok {
			callee = mc.Fn.(*ssa.Function)
		}
		if callee == nil {
			if _, isParam := cc.Value.(*ssa.Parameter); isParam && f.contract != nil && f.contract.PureCallbacks {
				return
			}
			if ftKey, nt := functypeKey(f.subst(cc.Value.Type())); nt != nil {
				if ct := f.ctx.eng.contracts.Funcs[ftKey]; ct != nil && ct.ModifiesSet {
					f.functypeMods(ct, nt, ms)
					return
				}
			}
			ms.top = true
			return
		}
	}
	if !f.ctx.eng.inModule(callee) && (f.ctx.eng.externConfined(callee) || strings.HasPrefix(fullName(callee), "sort.")) {
		if _, hasModel := externModels[fullName(callee)]; !hasModel || strings.HasPrefix(fullName(callee), "sort.") {
			ef := &effects{comps: ms.comps}
			f.ctx.eng.confinedEffects(callee, cc, f, ef)
			if ef.top {
				ms.top = true
			}
			return
		}
	}
	// a traced callee bumps its ghost call counter
	{
		t := callee
		if o := callee.Origin(); o != nil {
			t = o
		}
		if top := f.top(); top.contract != nil {
			for i := range top.contract.AtCalls {
				ac := &top.contract.AtCalls[i]
				if ac.Let == "" || ac.Key != funcKey(t) {
					continue
				}
				if ac.LetT == nil {
					te := top.specEnv(top.entry, top.entry)
					te.pol = 0
					v := te.eval(ac.Clause.Expr)
					if tt, ok := v.V.(*Term); ok {
						ac.LetT, ac.LetS = v.T, tt.S
					}
				}
				if ac.LetT != nil {
					f.addComp(ms, "$let!"+ac.Let, ac.LetS)
				}
			}
		}
		if tc := f.ctx.eng.contractFor(t); tc != nil && tc.Traced {
			f.addComp(ms, "$ncalls!"+funcKey(t), SInt)
			sig := t.Signature
			n := 0
			if sig.Recv() != nil {
				f.addComp(ms, fmt.Sprintf("$lastarg!%s!%d", funcKey(t), 0), f.sortOf(sig.Recv().Type()))
				n = 1
			}
			for i := 0; i < sig.Params().Len(); i++ {
				f.addComp(ms, fmt.Sprintf("$lastarg!%s!%d", funcKey(t), n+i), f.sortOf(sig.Params().At(i).Type()))
			}
			for i := 0; i < sig.Results().Len(); i++ {
				f.addComp(ms, fmt.Sprintf("$lastres!%s!%d", funcKey(t), i), f.sortOf(sig.Results().At(i).Type()))
			}
		}
	}
	// private cells captured by the closure being called and written by it
	f.closureCellMods(cc, callee, ms)
	if f.top().trackOwn {
		if ms.viaFresh == nil {
			ms.viaFresh = map[string]Sort{}
		}
		ms.viaFresh[coComp] = ArrS(SInt, SBool)
	}
	sub := f.ctx.eng.effectsOf(callee, f)
	ct := f.ctx.eng.contracts.Funcs[funcKey(callee)]
	freshOnly := ct != nil && !ct.Inline && (ct.Fresh || (ct.ModifiesSet && modifiesNothing(ct)))
	if sub.top {
		if !freshOnly {
			ms.top = true
			return
		}
		// a callee that writes nothing pre-existing: whatever it touches, older memory is kept
		sub = &effects{comps: map[string]Sort{}}
		for k, v := range f.ctx.eng.compSeen {
			sub.comps[k] = v
		}
	}
	for k, v := range sub.comps {
		if freshOnly {
			if ms.viaFresh == nil {
				ms.viaFresh = map[string]Sort{}
			}
			ms.viaFresh[k] = v
		} else {
			ms.comps[k] = v
		}
	}
}

func modifiesNothing(ct *Contract) bool {
	for _, m := range ct.Modifies {
		if strings.TrimSpace(m) != "" && strings.TrimSpace(m) != "nothing" {
			return false
		}
	}
	return true
}
