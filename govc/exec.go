package main

// Symbolic execution of go/ssa function bodies into guarded verification conditions.
// Blocks are processed once, in reverse post-order of the CFG with back edges cut at loop headers;
// states are merged with ite at joins, so the number of solver queries is linear in the code size.

import (
	"fmt"
	"go/constant"
	"go/token"
	"go/types"
	"sort"
	"strings"

	"golang.org/x/tools/go/ssa"
)

type Frame struct {
	ctx      *Ctx
	fn       *ssa.Function
	tmap     TMap
	vals     map[ssa.Value]Val
	depth    int
	parent   *Frame
	contract *Contract
	entry    *State
	inl      string // inline path suffix for obligation names
	loops    map[*ssa.BasicBlock]*loopInfo
	loopOrd  map[*ssa.BasicBlock]int
	ghosts   map[string]SVal
	defers   []*ssa.Defer
	checkFrame bool // emit frame obligations (writes only to fresh memory)
	site     string // label for skolem naming
	modLocs  []modLoc
	inlLoops int    // top frame: number of inlined loops entered so far
	trackOwn bool   // C18: stores must target memory allocated by this activation itself
	parentEntryOverride *State
	activeWit   *LoopContract // witnesses supplied by the innermost annotated loop
	activeWitEnv *loopEnv
	activeWitLoop *loopInfo
	specVars    map[string]SVal // extra identifiers visible to contract expressions of this frame
	autoInv     []Clause // standing invariants of the parameters, carried through every loop of the top function
	relational  bool     // C03: calls through function values are deterministic functions of (function, arguments); stated per site
	cfgRPO      []*ssa.BasicBlock
	cfgBack     map[[2]int]bool
	loopRun     *loopRun // C03: execute one iteration of a map-range loop from a given state
	presiteName string // site label of this activation's assumed preconditions (skolem lookup)
	visited  map[*ssa.Range]*Term // ghost visited set per map range at loop head
	curKey   map[*ssa.Range]*Term
	copyUnfold int // >0: nested copy relations are unfolded this many more levels (assumption side only)
	curBlock *ssa.BasicBlock // block being executed (at-call clauses look up the enclosing loop)
}

type loopInfo struct {
	header *ssa.BasicBlock
	body   map[*ssa.BasicBlock]bool
	backs  []*ssa.BasicBlock
	ord    int
	inlSeq int // order of this loop among loops of inlined callees (-1: none)
	inlSet bool
}

// loopRun drives the execution of a single iteration of one loop (relational checks of C03).
type loopRun struct {
	header *ssa.BasicBlock
	rg     *ssa.Range
	next   TupleVal
	phiIn  map[*ssa.Phi]Val
	backs  []loopBack
	exits  []*Term // reach conditions of edges that leave the loop early (break, return)
	ext    map[*ssa.BasicBlock]bool
}

// extended: the loop body plus the blocks that can only be reached by leaving the loop from inside
// its body (early returns): they are executed too, so that an exit can be classified.
func (lr *loopRun) extended(f *Frame) map[*ssa.BasicBlock]bool {
	if lr.ext != nil {
		return lr.ext
	}
	body := f.loops[lr.header].body
	lr.ext = map[*ssa.BasicBlock]bool{}
	for b := range body {
		lr.ext[b] = true
	}
	for _, b := range f.fn.Blocks {
		if body[b] {
			continue
		}
		for d := range body {
			if d != lr.header && d.Dominates(b) {
				lr.ext[b] = true
			}
		}
	}
	return lr.ext
}

type loopBack struct {
	cond *Term
	st   *State
	phis map[*ssa.Phi]Val
}

type edge struct {
	from *ssa.BasicBlock
	cond *Term
	st   *State
}

type retInfo struct {
	cond *Term
	st   *State
	vals []Val
}

func (f *Frame) pos(p token.Pos) string {
	if !p.IsValid() {
		return ""
	}
	pp := f.ctx.eng.prog.Fset.Position(p)
	return fmt.Sprintf("%s:%d", shortPath(pp.Filename), pp.Line)
}

func shortPath(p string) string {
	if i := strings.Index(p, "/internal/"); i >= 0 {
		return p[i+1:]
	}
	return p
}

// check emits an obligation and then assumes the checked fact.
func (f *Frame) check(kind, what string, reach, cond *Term, p token.Pos) {
	if cond.Op == "true" {
		f.ctx.trivial++
		return
	}
	name := f.ctx.fnKey + ":" + what
	if f.inl != "" {
		name += "@" + f.inl
	}
	o := f.ctx.addOblig(kind, name, Implies(reach, cond), f.pos(p))
	o.Reach, o.Cond = reach, cond
	if cond.Op == "false" {
		// a goal that could not even be formed (an existential without a witness evaluates to false in goal
		// position): the obligation fails, but assuming `false` would kill the path and make everything
		// behind it vacuously true - nothing is assumed (callers that need the fact assume its positive form)
		return
	}
	f.ctx.assume(Implies(reach, cond))
}

func (f *Frame) get(v ssa.Value) Val {
	switch c := v.(type) {
	case *ssa.Const:
		return f.constVal(c)
	case *ssa.Function:
		return ClosureVal{Fn: c}
	case *ssa.Builtin:
		return BuiltinVal{c.Name()}
	case *ssa.Global:
		return LocVal{kind: locGlobal, glob: c, rootT: derefT(c.Type()), T: derefT(c.Type())}
	}
	x, ok := f.vals[v]
	if !ok {
		panic(unsupported(fmt.Sprintf("no value for %s = %s in %s", v.Name(), v.String(), f.fn.Name())))
	}
	return x
}

func (f *Frame) term(v ssa.Value) *Term { return f.asTerm(f.get(v)) }

func (f *Frame) constVal(c *ssa.Const) Val {
	t := f.subst(c.Type())
	if c.Value == nil {
		return f.zero(t)
	}
	switch u := t.Underlying().(type) {
	case *types.Basic:
		switch {
		case u.Info()&types.IsBoolean != 0:
			return BoolLit(constant.BoolVal(c.Value))
		case u.Info()&types.IsInteger != 0:
			if i, ok := constant.Int64Val(constant.ToInt(c.Value)); ok {
				return IntLit(i)
			}
			// large unsigned constants
			return Atom(constant.ToInt(c.Value).ExactString(), SInt)
		case u.Info()&types.IsString != 0:
			return f.ctx.strLit(constant.StringVal(c.Value))
		case u.Info()&types.IsFloat != 0:
			return f.ctx.fltLit(c.Value.ExactString())
		}
	case *types.TypeParam:
		_ = u
	}
	panic(unsupported("constant " + c.String()))
}

func describe(v ssa.Value) string {
	switch x := v.(type) {
	case *ssa.Parameter:
		return x.Name()
	case *ssa.FreeVar:
		return x.Name()
	case *ssa.FieldAddr:
		st := derefT(x.X.Type()).Underlying().(*types.Struct)
		return describe(x.X) + "." + st.Field(x.Field).Name()
	case *ssa.Field:
		st := x.X.Type().Underlying().(*types.Struct)
		return describe(x.X) + "." + st.Field(x.Field).Name()
	case *ssa.UnOp:
		if x.Op == token.MUL {
			return describe(x.X)
		}
		return x.Op.String() + describe(x.X)
	case *ssa.IndexAddr:
		return describe(x.X) + "[]"
	case *ssa.Index:
		return describe(x.X) + "[]"
	case *ssa.Lookup:
		return describe(x.X) + "[]"
	case *ssa.Alloc:
		if x.Comment != "" {
			return x.Comment
		}
		return "new"
	case *ssa.Phi:
		if x.Comment != "" {
			return x.Comment
		}
		return "phi"
	case *ssa.Call:
		if fn := x.Call.StaticCallee(); fn != nil {
			return fn.Name() + "()"
		}
		if x.Call.IsInvoke() {
			return x.Call.Method.Name() + "()"
		}
		return "call()"
	case *ssa.Extract:
		return describe(x.Tuple)
	case *ssa.Const:
		return "const"
	case *ssa.Global:
		return x.Name()
	case *ssa.ChangeType:
		return describe(x.X)
	case *ssa.Convert:
		return describe(x.X)
	case *ssa.MakeInterface:
		return describe(x.X)
	case *ssa.TypeAssert:
		return describe(x.X)
	case *ssa.Slice:
		return describe(x.X)
	case *ssa.Next:
		return "range"
	case *ssa.BinOp:
		return "expr"
	}
	return "value"
}

// ---- CFG analysis --------------------------------------------------------------------------------

func (f *Frame) analyzeLoops() (rpo []*ssa.BasicBlock, isBack map[[2]int]bool) {
	if f.loops != nil && f.cfgRPO != nil {
		return f.cfgRPO, f.cfgBack
	}
	defer func() { f.cfgRPO, f.cfgBack = rpo, isBack }()
	fn := f.fn
	isBack = map[[2]int]bool{}
	f.loops = map[*ssa.BasicBlock]*loopInfo{}
	for _, b := range fn.Blocks {
		for _, s := range b.Succs {
			if s.Dominates(b) {
				isBack[[2]int{b.Index, s.Index}] = true
				li := f.loops[s]
				if li == nil {
					li = &loopInfo{header: s, body: map[*ssa.BasicBlock]bool{s: true}}
					f.loops[s] = li
				}
				li.backs = append(li.backs, b)
				// natural loop body
				stack := []*ssa.BasicBlock{b}
				for len(stack) > 0 {
					n := stack[len(stack)-1]
					stack = stack[:len(stack)-1]
					if li.body[n] {
						continue
					}
					li.body[n] = true
					stack = append(stack, n.Preds...)
				}
			}
		}
	}
	var headers []*ssa.BasicBlock
	for h := range f.loops {
		headers = append(headers, h)
	}
	sort.Slice(headers, func(i, j int) bool { return headers[i].Index < headers[j].Index })
	for i, h := range headers {
		f.loops[h].ord = i
	}
	// reverse post-order ignoring back edges
	seen := map[*ssa.BasicBlock]bool{}
	var post []*ssa.BasicBlock
	var dfs func(b *ssa.BasicBlock)
	dfs = func(b *ssa.BasicBlock) {
		seen[b] = true
		for _, s := range b.Succs {
			if !seen[s] && !isBack[[2]int{b.Index, s.Index}] {
				dfs(s)
			}
		}
		post = append(post, b)
	}
	if len(fn.Blocks) > 0 {
		dfs(fn.Blocks[0])
	}
	for i := len(post) - 1; i >= 0; i-- {
		rpo = append(rpo, post[i])
	}
	return
}

// ---- running a function body ---------------------------------------------------------------------

// run executes the body from the given state under the given reach condition and returns the merged
// exit state, exit reach and result values.
func (f *Frame) run(st *State, reach *Term) (*State, *Term, []Val) {
	fn := f.fn
	if len(fn.Blocks) == 0 {
		panic(unsupported("function without body: " + fn.String()))
	}
	rpo, isBack := f.analyzeLoops()
	incoming := map[*ssa.BasicBlock][]edge{}
	start := fn.Blocks[0]
	var onlyIn map[*ssa.BasicBlock]bool
	if f.loopRun != nil {
		start = f.loopRun.header
		onlyIn = f.loopRun.extended(f)
	}
	incoming[start] = []edge{{from: nil, cond: reach, st: st}}
	var rets []retInfo
	for _, b := range rpo {
		if onlyIn != nil && !onlyIn[b] {
			continue
		}
		edges := incoming[b]
		if len(edges) == 0 {
			continue // unreachable
		}
		delete(incoming, b)
		var cur *State
		var r *Term
		if f.loopRun != nil && b == f.loopRun.header {
			cur, r = edges[0].st, edges[0].cond
			for ph, v := range f.loopRun.phiIn {
				f.vals[ph] = v
			}
		} else {
			cur, r = f.mergeEdges(b, edges)
			if li := f.loops[b]; li != nil {
				if ust, ok := f.tryUnroll(li, cur, r); ok {
					cur = ust
				} else {
					cur = f.enterLoop(li, cur, r, edges)
				}
			}
		}
		// instructions
		terminated := false
		f.curBlock = b
		for _, in := range b.Instrs {
			switch x := in.(type) {
			case *ssa.Phi, *ssa.DebugRef:
				continue
			case *ssa.If:
				c := f.ctx.name("c", f.term(x.Cond))
				f.pushEdge(incoming, isBack, b, b.Succs[0], f.edgeCond(r, c), cur.clone())
				f.pushEdge(incoming, isBack, b, b.Succs[1], f.edgeCond(r, Not(c)), cur)
				terminated = true
			case *ssa.Jump:
				f.pushEdge(incoming, isBack, b, b.Succs[0], r, cur)
				terminated = true
			case *ssa.Return:
				if f.loopRun != nil {
					// leaving the loop by returning a non-nil error is order-insensitive as far as
					// the generated files are concerned (there are none); anything else is an early exit
					benign := False
					if n := len(x.Results); n > 0 {
						if ev, ok := f.get(x.Results[n-1]).(*Term); ok && ev.S == SAny && isErrorType(x.Results[n-1].Type()) {
							benign = Neq(ev, Atom("anynil", SAny))
						}
					}
					f.loopRun.exits = append(f.loopRun.exits, And(r, Not(benign)))
					terminated = true
					break
				}
				var vs []Val
				for _, rv := range x.Results {
					vs = append(vs, f.get(rv))
				}
				f.runDefers(cur, r, b)
				rets = append(rets, retInfo{cond: r, st: cur, vals: vs})
				terminated = true
			case *ssa.Panic:
				f.check("safe", "explicit-panic", r, False, x.Pos())
				terminated = true
			default:
				f.instr(cur, r, in)
			}
			if terminated {
				break
			}
		}
	}
	if len(rets) == 0 {
		// function never returns normally
		return st, False, nil
	}
	if len(rets) == 1 {
		return rets[0].st, rets[0].cond, rets[0].vals
	}
	// merge returns
	var es []edge
	for _, rt := range rets {
		es = append(es, edge{cond: rt.cond, st: rt.st})
	}
	exit, r := f.mergeStates(es)
	n := len(rets[0].vals)
	out := make([]Val, n)
	for i := 0; i < n; i++ {
		var vs []Val
		for _, rt := range rets {
			vs = append(vs, rt.vals[i])
		}
		out[i] = f.mergeVals(es, vs, "ret")
	}
	return exit, r, out
}

func (f *Frame) edgeCond(reach, c *Term) *Term {
	e := And(reach, c)
	if e.size > 3 {
		n := f.ctx.fresh("e", SBool)
		f.ctx.assume(Eq(n, e))
		return n
	}
	return e
}

func (f *Frame) pushEdge(incoming map[*ssa.BasicBlock][]edge, isBack map[[2]int]bool, from, to *ssa.BasicBlock, cond *Term, st *State) {
	if cond.Op == "false" {
		return
	}
	if lr := f.loopRun; lr != nil {
		if to == lr.header && isBack[[2]int{from.Index, to.Index}] {
			phis := map[*ssa.Phi]Val{}
			for _, in := range to.Instrs {
				ph, ok := in.(*ssa.Phi)
				if !ok {
					break
				}
				for i, p := range to.Preds {
					if p == from {
						phis[ph] = f.get(ph.Edges[i])
					}
				}
			}
			lr.backs = append(lr.backs, loopBack{cond: cond, st: st, phis: phis})
			return
		}
		if !lr.extended(f)[to] {
			lr.exits = append(lr.exits, cond)
			return
		}
	}
	if isBack[[2]int{from.Index, to.Index}] {
		f.backEdge(f.loops[to], from, cond, st)
		return
	}
	incoming[to] = append(incoming[to], edge{from: from, cond: cond, st: st})
}

// mergeStates merges the states of several edges (conditions are pairwise exclusive).
func (f *Frame) mergeStates(edges []edge) (*State, *Term) {
	if len(edges) == 1 {
		return edges[0].st, edges[0].cond
	}
	var conds []*Term
	for _, e := range edges {
		conds = append(conds, e.cond)
	}
	r := f.ctx.fresh("reach", SBool)
	f.ctx.assume(Eq(r, Or(conds...)))
	out := &State{heap: map[string]*Term{}, locals: map[*ssa.Alloc]*Term{}}
	// base: keep if all equal
	out.base = edges[0].st.base
	for _, e := range edges[1:] {
		if e.st.base != out.base {
			f.ctx.eng.nextBase++
			out.base = f.ctx.eng.nextBase
			break
		}
	}
	names := map[string]Sort{}
	for _, e := range edges {
		for k, v := range e.st.heap {
			names[k] = v.S
		}
	}
	keys := make([]string, 0, len(names))
	for k := range names {
		keys = append(keys, k)
	}
	sort.Strings(keys)
	for _, k := range keys {
		vs := make([]*Term, len(edges))
		for i, e := range edges {
			vs[i] = f.ctx.comp(e.st, k, names[k])
		}
		out.heap[k] = f.iteChain(edges, vs, "H")
	}
	locs := map[*ssa.Alloc]bool{}
	for _, e := range edges {
		for k := range e.st.locals {
			locs[k] = true
		}
	}
	for a := range locs {
		vs := make([]*Term, len(edges))
		for i, e := range edges {
			v, ok := e.st.locals[a]
			if !ok {
				v = f.zero(derefT(a.Type()))
			}
			vs[i] = v
		}
		out.locals[a] = f.iteChain(edges, vs, "loc")
	}
	as := make([]*Term, len(edges))
	for i, e := range edges {
		as[i] = e.st.alloc
	}
	out.alloc = f.iteChain(edges, as, "alloc")
	return out, r
}

func (f *Frame) iteChain(edges []edge, vs []*Term, hint string) *Term {
	same := true
	for _, v := range vs[1:] {
		if v != vs[0] && !termEq(v, vs[0]) {
			same = false
			break
		}
	}
	if same {
		return vs[0]
	}
	t := vs[len(vs)-1]
	for i := len(vs) - 2; i >= 0; i-- {
		t = Ite(edges[i].cond, vs[i], t)
	}
	return f.ctx.name(hint, t)
}

func (f *Frame) mergeVals(edges []edge, vs []Val, hint string) Val {
	allTerms := true
	for _, v := range vs {
		if _, ok := v.(*Term); !ok {
			allTerms = false
		}
	}
	if allTerms {
		ts := make([]*Term, len(vs))
		for i, v := range vs {
			ts[i] = v.(*Term)
		}
		return f.iteChain(edges, ts, hint)
	}
	// tuples merge element-wise
	if t0, ok := vs[0].(TupleVal); ok {
		out := make(TupleVal, len(t0))
		for i := range t0 {
			var col []Val
			for _, v := range vs {
				tv, ok := v.(TupleVal)
				if !ok || len(tv) != len(t0) {
					panic(unsupported("merging tuple with non-tuple"))
				}
				col = append(col, tv[i])
			}
			out[i] = f.mergeVals(edges, col, hint)
		}
		return out
	}
	// non-term values must be identical, or convertible to terms
	ts := make([]*Term, len(vs))
	for i, v := range vs {
		ts[i] = f.asTerm(v)
	}
	return f.iteChain(edges, ts, hint)
}

func (f *Frame) mergeEdges(b *ssa.BasicBlock, edges []edge) (*State, *Term) {
	st, r := f.mergeStates(edges)
	if len(edges) == 1 {
		st = edges[0].st
	}
	// phis
	for _, in := range b.Instrs {
		ph, ok := in.(*ssa.Phi)
		if !ok {
			break
		}
		var vs []Val
		for _, e := range edges {
			idx := -1
			for i, p := range b.Preds {
				if p == e.from {
					idx = i
					break
				}
			}
			if idx < 0 {
				panic("phi edge not found")
			}
			vs = append(vs, f.get(ph.Edges[idx]))
		}
		name := ph.Comment
		if name == "" {
			name = "phi"
		}
		f.vals[ph] = f.mergeVals(edges, vs, name)
	}
	return st, r
}

// ---- instructions --------------------------------------------------------------------------------

func (f *Frame) instr(st *State, r *Term, in ssa.Instruction) {
	switch x := in.(type) {
	case *ssa.Alloc:
		et := derefT(x.Type())
		if !x.Heap || f.ctx.eng.privateCell(x) {
			st.locals[x] = f.zero(et)
			f.vals[x] = LocVal{kind: locLocal, alloc: x, rootT: et, T: et}
			return
		}
		ref := f.newRef(st, "new")
		l := LocVal{kind: locHeap, ref: ref, rootT: et, T: et}
		f.writeRoot(st, l, f.zero(et))
		f.vals[x] = ref
	case *ssa.FieldAddr:
		base := f.get(x.X)
		l := f.asLoc(base, x.X.Type())
		if l.kind == locHeap && len(l.path) == 0 {
			f.check("safe", "nil-deref:"+describe(x.X), r, Neq(l.ref, IntLit(0)), x.Pos())
		}
		ct := derefT(f.subst(x.X.Type()))
		ft := ct.Underlying().(*types.Struct).Field(x.Field).Type()
		f.vals[x] = l.extend(pathElem{field: x.Field, cont: ct}, ft)
	case *ssa.Field:
		v := f.term(x.X)
		si := f.structInfo(x.X.Type())
		f.vals[x] = si.Get(v, x.Field)
	case *ssa.IndexAddr:
		idx := f.term(x.Index)
		xt := f.subst(x.X.Type())
		switch u := xt.Underlying().(type) {
		case *types.Slice:
			s := f.term(x.X)
			f.check("safe", "index:"+describe(x.X), r, And(Le(IntLit(0), idx), Lt(idx, SlcLen(s))), x.Pos())
			f.vals[x] = LocVal{kind: locElem, ref: SlcBase(s), idx: Slot(SlcOff(s), idx), rootT: u.Elem(), T: u.Elem()}
		case *types.Pointer:
			at := u.Elem().Underlying().(*types.Array)
			l := f.asLoc(f.get(x.X), xt)
			f.check("safe", "index:"+describe(x.X), r, And(Le(IntLit(0), idx), Lt(idx, IntLit(at.Len()))), x.Pos())
			if l.kind == locHeap && len(l.path) == 0 {
				f.check("safe", "nil-deref:"+describe(x.X), r, Neq(l.ref, IntLit(0)), x.Pos())
				f.vals[x] = LocVal{kind: locElem, ref: l.ref, idx: idx, rootT: at.Elem(), T: at.Elem()}
			} else {
				f.vals[x] = l.extend(pathElem{idx: idx, cont: u.Elem()}, at.Elem())
			}
		default:
			panic(unsupported("IndexAddr on " + xt.String()))
		}
	case *ssa.Index:
		xt := f.subst(x.X.Type())
		idx := f.term(x.Index)
		switch u := xt.Underlying().(type) {
		case *types.Array:
			f.check("safe", "index:"+describe(x.X), r, And(Le(IntLit(0), idx), Lt(idx, IntLit(u.Len()))), x.Pos())
			f.vals[x] = Select(f.term(x.X), idx)
		case *types.Basic: // string
			s := f.term(x.X)
			f.check("safe", "index:"+describe(x.X), r, And(Le(IntLit(0), idx), Lt(idx, f.ctx.uf("strlen", SInt, s))), x.Pos())
			f.vals[x] = f.ctx.uf("strat", SInt, s, idx)
		default:
			panic(unsupported("Index on " + xt.String()))
		}
	case *ssa.UnOp:
		switch x.Op {
		case token.MUL:
			l := f.asLoc(f.get(x.X), x.X.Type())
			if l.kind == locHeap && len(l.path) == 0 {
				f.check("safe", "nil-deref:"+describe(x.X), r, Neq(l.ref, IntLit(0)), x.Pos())
			}
			v := f.load(st, l)
			f.vals[x] = f.nameLoaded(st, v, x.Type())
			f.entryClosure(l, x.Type())
			f.containerInvariants(st, l)
		case token.NOT:
			f.vals[x] = Not(f.term(x.X))
		case token.SUB:
			v := f.term(x.X)
			if v.S == SFlt {
				f.vals[x] = f.ctx.uf("fneg", SFlt, v)
			} else {
				f.vals[x] = Sub(IntLit(0), v)
			}
		case token.XOR:
			f.vals[x] = f.ctx.uf("bitnot", SInt, f.term(x.X))
		default:
			panic(unsupported("unop " + x.Op.String()))
		}
	case *ssa.Store:
		l := f.asLoc(f.get(x.Addr), x.Addr.Type())
		if l.kind == locHeap && len(l.path) == 0 {
			f.check("safe", "nil-deref:"+describe(x.Addr), r, Neq(l.ref, IntLit(0)), x.Pos())
		}
		f.frameCheck(st, r, l, "store:"+describe(x.Addr), x.Pos())
		v := f.asTerm(f.get(x.Val))
		f.guardedStore(st, r, l, v)
	case *ssa.BinOp:
		f.vals[x] = f.binop(x, r)
	case *ssa.ChangeType:
		v := f.get(x.X)
		if t, ok := v.(*Term); ok && t.S != SAny && isIfaceT(f.subst(x.Type())) {
			v = f.box(t, x.X.Type())
		}
		f.vals[x] = v
	case *ssa.ChangeInterface:
		f.vals[x] = f.get(x.X)
	case *ssa.Convert:
		f.vals[x] = f.convert(st, x)
	case *ssa.MakeInterface:
		f.vals[x] = f.box(f.asTerm(f.get(x.X)), x.X.Type())
	case *ssa.TypeAssert:
		f.vals[x] = f.typeAssert(x, r)
	case *ssa.Extract:
		tv, ok := f.get(x.Tuple).(TupleVal)
		if !ok {
			panic(unsupported("extract from non-tuple"))
		}
		f.vals[x] = tv[x.Index]
	case *ssa.MakeSlice:
		ln, cp := f.term(x.Len), f.term(x.Cap)
		f.check("safe", "make-size:"+describeMake(x), r, And(Le(IntLit(0), ln), Le(ln, cp)), x.Pos())
		ref := f.newRef(st, "mk")
		et := f.subst(x.Type()).Underlying().(*types.Slice).Elem()
		es := f.sortOf(et)
		name := f.eName(et)
		E := f.ctx.comp(st, name, ArrS(SInt, ArrS(SInt, es)))
		st.heap[name] = f.ctx.name("E", Store(E, ref, f.zeroArray(ArrS(SInt, es), es, et)))
		f.vals[x] = MkSlice(ref, IntLit(0), ln, cp)
	case *ssa.MakeMap:
		ref := f.newRef(st, "mkmap")
		mt := f.subst(x.Type()).Underlying().(*types.Map)
		ks := f.sortOf(mt.Key())
		dn := f.mdName(mt.Key(), mt.Elem())
		D := f.ctx.comp(st, dn, ArrS(SInt, ArrS(ks, SBool)))
		st.heap[dn] = f.ctx.name("MD", Store(D, ref, ConstArr(ArrS(ks, SBool), False)))
		f.vals[x] = ref
	case *ssa.MakeClosure:
		var bs []Val
		for _, b := range x.Bindings {
			bs = append(bs, f.get(b))
		}
		f.vals[x] = ClosureVal{Fn: x.Fn.(*ssa.Function), Bindings: bs}
		f.bindingChecks(st, r, x, bs)
	case *ssa.Slice:
		f.vals[x] = f.sliceOp(st, r, x)
	case *ssa.Lookup:
		f.vals[x] = f.lookup(st, r, x)
	case *ssa.MapUpdate:
		m := f.term(x.Map)
		f.check("safe", "nil-map-write:"+describe(x.Map), r, Neq(m, IntLit(0)), x.Pos())
		mt := f.subst(x.Map.Type()).Underlying().(*types.Map)
		f.frameCheckMap(st, r, mt, m, f.term(x.Key), "map-write:"+describe(x.Map), x.Pos())
		f.mapStore(st, r, mt, m, f.term(x.Key), f.asTerm(f.get(x.Value)))
	case *ssa.Range:
		xt := f.subst(x.X.Type())
		if mt, ok := xt.Underlying().(*types.Map); ok {
			m := f.term(x.X)
			ks := f.sortOf(mt.Key())
			D := f.ctx.comp(st, f.mdName(mt.Key(), mt.Elem()), ArrS(SInt, ArrS(ks, SBool)))
			dom0 := f.ctx.define("dom0", Ite(Eq(m, IntLit(0)), ConstArr(ArrS(ks, SBool), False), Select(D, m)))
			f.vals[x] = RangeIterVal{X: m, T: xt, Dom0: dom0, Instr: x}
		} else {
			panic(unsupported("range over " + xt.String()))
		}
	case *ssa.Next:
		f.vals[x] = f.next(st, r, x)
	case *ssa.Call:
		f.vals[x] = f.call(st, r, x, &x.Call)
	case *ssa.Defer:
		// deferred calls run at every return their block dominates; a defer inside a loop would
		// have to run once per iteration and is outside the subset
		for _, li := range f.loops {
			if li.body[x.Block()] {
				panic(unsupported("defer inside a loop"))
			}
		}
		f.defers = append(f.defers, x)
	case *ssa.RunDefers:
		// handled at Return
	case *ssa.Go, *ssa.Select, *ssa.Send, *ssa.MakeChan:
		panic(unsupported("concurrency: " + in.String()))
	default:
		panic(unsupported(fmt.Sprintf("instruction %T: %s", in, in)))
	}
}

func describeMake(x *ssa.MakeSlice) string {
	return types.TypeString(x.Type(), func(p *types.Package) string { return p.Name() })
}

// guardedStore writes v at l only when reach holds (states are shared across merged paths only via
// ite at joins, so an unconditional update of this block's private state is correct).
func (f *Frame) guardedStore(st *State, r *Term, l LocVal, v *Term) {
	f.store(st, l, v)
}

func (f *Frame) nameLoaded(st *State, v *Term, t types.Type) *Term {
	if v.size > 6 {
		v = f.ctx.name("ld", v)
	}
	f.assumeWf(st, v, t)
	return v
}

// isEntryTerm: built only from parameters and entry versions of heap components.
func isEntryTerm(t *Term) bool {
	if t.IsAtom() {
		if _, ok := t.intVal(); ok {
			return true
		}
		n := strings.Trim(t.Op, "|")
		return strings.HasPrefix(n, "param!") || strings.HasSuffix(n, "@0") || strings.HasPrefix(n, "free!")
	}
	switch {
	case t.Op == "select", t.Op == "slot", t.Op == "+", t.Op == "-", strings.HasPrefix(t.Op, "Slc!"), strings.HasPrefix(strings.Trim(t.Op, "|"), "S!"):
		for _, a := range t.Args {
			if !isEntryTerm(a) {
				return false
			}
		}
		return true
	}
	return false
}

// assumeSlcShape: every slice value held in memory satisfies 0 <= off, 0 <= len <= cap.
func (f *Frame) assumeSlcShape(v *Term) {
	if v.Op == "mk!Slc" || v.size > 30 || mentionsBound(v) {
		return
	}
	f.ctx.assumeOnce("shape:"+v.String(), And(Le(IntLit(0), SlcOff(v)), Le(IntLit(0), SlcLen(v)), Le(SlcLen(v), SlcCap(v)), Le(IntLit(0), SlcBase(v)), Implies(Eq(SlcBase(v), IntLit(0)), Eq(SlcCap(v), IntLit(0)))))
}

// assumeWf records model invariants of a loaded/opaque value: references are allocated.
// entryClosure: whatever a pre-existing location held at entry refers to pre-existing memory only.
// (An instance of "the entry heap is closed under reachability"; the solver connects it to the
// current contents through the frame facts it has.)
func (f *Frame) entryClosure(l LocVal, t types.Type) {
	top := f.top()
	if top.entry == nil || (l.kind != locHeap && l.kind != locElem) {
		return
	}
	switch f.subst(t).Underlying().(type) {
	case *types.Pointer, *types.Map, *types.Slice, *types.Struct:
	default:
		return
	}
	if mentionsBound(l.ref) || (l.idx != nil && mentionsBound(l.idx)) {
		return
	}
	key := "entry-closure:" + l.ref.String() + "/" + fmt.Sprint(l.idx) + "/" + fmt.Sprint(len(l.path))
	for _, pe := range l.path {
		key += fmt.Sprintf(".%d", pe.field)
		if pe.idx != nil {
			return
		}
	}
	if f.ctx.assumed[key] {
		return
	}
	f.ctx.assumed[key] = true
	ve := f.load(top.entry, l)
	if ve.size > 40 {
		return
	}
	var facts []*Term
	var collect func(v *Term, t types.Type, depth int)
	collect = func(v *Term, t types.Type, depth int) {
		t = f.subst(t)
		switch u := t.Underlying().(type) {
		case *types.Pointer, *types.Map:
			facts = append(facts, Lt(v, top.entry.alloc))
		case *types.Slice:
			facts = append(facts, Lt(SlcBase(v), top.entry.alloc))
		case *types.Struct:
			if depth > 1 {
				return
			}
			si := f.structInfo(t)
			for i := 0; i < u.NumFields(); i++ {
				collect(si.Get(v, i), u.Field(i).Type(), depth+1)
			}
		}
	}
	collect(ve, t, 0)
	if len(facts) > 0 {
		f.ctx.assume(Implies(And(Le(IntLit(0), l.ref), Lt(l.ref, top.entry.alloc)), And(facts...)))
	}
}

var kindPayload = [][2]string{{"disjunction", "Disjunction"}, {"ref", "Ref"}, {"constant_ref", "ConstantReference"}, {"struct", "Struct"},
	{"enum", "Enum"}, {"map", "Map"}, {"array", "Array"}, {"scalar", "Scalar"}, {"intersection", "Intersection"}, {"composable_slot", "ComposableSlot"}}

// kindInvariant: IR well-formedness of ast.Type values - the payload selected by Kind is present.
// Established by the ast.New* constructors; assumed for every Type value read from memory.
func (f *Frame) kindInvariant(v *Term, t types.Type) {
	if f.ctx.eng.sorts.typeName(types.Unalias(t)) != "ast.Type" || !f.ctx.eng.assumeKindInv {
		return
	}
	si := f.structInfo(t)
	if v.size > 12 {
		if v.size > 60 || mentionsBound(v) {
			return
		}
		// a larger term (an element of a slice reached through a few fields): name it first
		key := "kindinv:" + v.String()
		if f.ctx.assumed[key+"#named"] {
			return
		}
		f.ctx.assumed[key+"#named"] = true
		v = f.ctx.define("ty", v)
	}
	f.kindInvariantOn(si, "kindinv:"+v.String(), func(i int) *Term { return si.Get(v, i) })
}

func (f *Frame) kindInvariantOn(si *StructInfo, key string, get func(i int) *Term) {
	ki := si.FieldIndex("Kind")
	if ki < 0 || f.ctx.assumed[key] {
		return
	}
	f.ctx.assumed[key] = true
	var cs []*Term
	for _, kp := range kindPayload {
		fi := si.FieldIndex(kp[1])
		if fi < 0 {
			continue
		}
		cs = append(cs, Implies(Eq(get(ki), f.ctx.strLit(kp[0])), Neq(get(fi), IntLit(0))))
	}
	f.ctx.assume(And(cs...))
	f.ctx.trusted["IR well-formedness: for every ast.Type value in memory the payload pointer selected by Kind is non-nil (established by the ast.New* constructors; not established for types decoded from user YAML)"] = true
}

// containerInvariants: IR invariants of the object a field is being read from.
func (f *Frame) containerInvariants(st *State, l LocVal) {
	if !f.ctx.eng.assumeKindInv || len(l.path) == 0 || l.ref == nil || mentionsBound(l.ref) {
		return
	}
	rt := f.subst(l.rootT)
	switch l.kind {
	case locHeap:
		if f.ctx.eng.sorts.typeName(types.Unalias(rt)) == "ast.Type" {
			si := f.structInfo(rt)
			ref := l.ref
			f.kindInvariantOn(si, "kindinv@"+ref.String()+"/"+fmt.Sprint(st.heap[compF(si, 0)] == nil), func(i int) *Term { return f.readHeapField(st, si, i, ref) })
		}
	case locElem:
		if isStructT(rt) && (l.idx == nil || !mentionsBound(l.idx)) {
			root := f.readRoot(st, l)
			if root.size <= 14 {
				f.assumeWf(st, root, rt)
			} else if root.size <= 60 {
				// an element reached through a few fields (def.Disjunction.Branches[1]): name it first
				key := "wfroot:" + root.String()
				if !f.ctx.assumed[key] {
					f.ctx.assumed[key] = true
					f.assumeWf(st, f.ctx.define("el", root), rt)
				}
			}
		}
	}
}

// mentionsBound: the term contains a quantifier-bound variable (they are named x!q<n>, x!cp<n>, ...).
func mentionsBound(t *Term) bool {
	if t.IsAtom() {
		return strings.Contains(t.Op, "!q") || strings.Contains(t.Op, "!cp") || strings.HasSuffix(t.Op, "!fr") || strings.HasSuffix(t.Op, "!ap") || strings.HasSuffix(t.Op, "!co")
	}
	for _, a := range t.Args {
		if mentionsBound(a) {
			return true
		}
	}
	return false
}

func (f *Frame) assumeWf(st *State, v *Term, t types.Type) {
	if mentionsBound(v) {
		return
	}
	t = f.subst(t)
	// a value read out of the entry heap only refers to memory that existed at entry
	if top := f.top(); top.entry != nil && top.entry != st && st.alloc != top.entry.alloc && isEntryTerm(v) {
		st = top.entry
	}
	switch u := t.Underlying().(type) {
	case *types.Pointer, *types.Map:
		_ = u
		if _, ok := v.intVal(); ok {
			return
		}
		f.ctx.assumeOnce("wf:"+v.String(), And(Le(IntLit(0), v), Lt(v, st.alloc)))
	case *types.Slice:
		if v.Op == "mk!Slc" {
			return
		}
		b := SlcBase(v)
		f.ctx.assumeOnce("wf:"+v.String(), And(Le(IntLit(0), b), Lt(b, st.alloc), Le(IntLit(0), SlcOff(v)), Le(IntLit(0), SlcLen(v)), Le(SlcLen(v), SlcCap(v)), Implies(Eq(b, IntLit(0)), Eq(SlcCap(v), IntLit(0)))))
	case *types.Struct:
		if v.size > 40 {
			return
		}
		f.kindInvariant(v, t)
		si := f.structInfo(t)
		if f.ctx.eng.assumeKindInv && f.ctx.eng.sorts.typeName(types.Unalias(t)) == "ast.TypeConstraint" {
			if ai := si.FieldIndex("Args"); ai >= 0 {
				f.ctx.assumeOnce("constraintargs:"+v.String(), Gt(SlcLen(si.Get(v, ai)), IntLit(0)))
				f.ctx.trusted["IR well-formedness: every TypeConstraint carries at least one argument (all three parsers build them that way)"] = true
			}
		}
		if f.ctx.eng.assumeKindInv && f.ctx.eng.sorts.typeName(types.Unalias(t)) == "ast.EnumValue" {
			if ti := si.FieldIndex("Type"); ti >= 0 {
				tsi := f.structInfo(si.Fields[ti].Type)
				if ki := tsi.FieldIndex("Kind"); ki >= 0 {
					f.ctx.assumeOnce("enumvalue:"+v.String(), Eq(tsi.Get(si.Get(v, ti), ki), f.ctx.strLit("scalar")))
					f.ctx.trusted["IR well-formedness: the type of every enum member is a scalar"] = true
				}
			}
		}
		for i, fi := range si.Fields {
			switch fi.Type.Underlying().(type) {
			case *types.Pointer, *types.Map, *types.Slice:
				f.assumeWf(st, si.Get(v, i), fi.Type)
			case *types.Struct:
				f.assumeWf(st, si.Get(v, i), fi.Type)
			}
		}
	}
}

func (f *Frame) binop(x *ssa.BinOp, r *Term) Val {
	a, b := f.asTerm(f.get(x.X)), f.asTerm(f.get(x.Y))
	if a.S != b.S {
		// shifts may have different integer types; both Int
		panic(unsupported(fmt.Sprintf("binop sorts %s %s", a.S, b.S)))
	}
	switch a.S {
	case SInt:
		switch x.Op {
		case token.ADD:
			return Add(a, b)
		case token.SUB:
			return Sub(a, b)
		case token.MUL:
			return Mul(a, b)
		case token.QUO:
			f.check("safe", "div-by-zero", r, Neq(b, IntLit(0)), x.Pos())
			return f.ctx.uf("godiv", SInt, a, b)
		case token.REM:
			f.check("safe", "div-by-zero", r, Neq(b, IntLit(0)), x.Pos())
			return f.ctx.uf("gorem", SInt, a, b)
		case token.EQL:
			return Eq(a, b)
		case token.NEQ:
			return Neq(a, b)
		case token.LSS:
			return Lt(a, b)
		case token.LEQ:
			return Le(a, b)
		case token.GTR:
			return Gt(a, b)
		case token.GEQ:
			return Ge(a, b)
		case token.AND, token.OR, token.XOR, token.SHL, token.SHR, token.AND_NOT:
			return f.ctx.uf("bit"+x.Op.String(), SInt, a, b)
		}
	case SBool:
		switch x.Op {
		case token.EQL:
			return Eq(a, b)
		case token.NEQ:
			return Neq(a, b)
		case token.AND:
			return And(a, b)
		case token.OR:
			return Or(a, b)
		}
	case SStr:
		switch x.Op {
		case token.EQL:
			return Eq(a, b)
		case token.NEQ:
			return Neq(a, b)
		case token.ADD:
			return f.ctx.uf("strcat", SStr, a, b)
		case token.LSS:
			return f.ctx.uf("strlt", SBool, a, b)
		case token.GTR:
			return f.ctx.uf("strlt", SBool, b, a)
		case token.LEQ:
			return Not(f.ctx.uf("strlt", SBool, b, a))
		case token.GEQ:
			return Not(f.ctx.uf("strlt", SBool, a, b))
		}
	case SFlt:
		switch x.Op {
		case token.EQL:
			return Eq(a, b)
		case token.NEQ:
			return Neq(a, b)
		case token.LSS:
			return f.ctx.uf("flt", SBool, a, b)
		case token.GTR:
			return f.ctx.uf("flt", SBool, b, a)
		case token.LEQ:
			return f.ctx.uf("fle", SBool, a, b)
		case token.GEQ:
			return f.ctx.uf("fle", SBool, b, a)
		case token.ADD, token.SUB, token.MUL, token.QUO:
			return f.ctx.uf("f"+x.Op.String(), SFlt, a, b)
		}
	case SSlc:
		// slices only compare against nil: a slice is nil iff it has no backing array
		switch x.Op {
		case token.EQL:
			return Eq(SlcBase(a), SlcBase(b))
		case token.NEQ:
			return Neq(SlcBase(a), SlcBase(b))
		}
	default:
		switch x.Op {
		case token.EQL:
			return Eq(a, b)
		case token.NEQ:
			return Neq(a, b)
		}
	}
	panic(unsupported(fmt.Sprintf("binop %s on %s", x.Op, a.S)))
}

func (f *Frame) convert(st *State, x *ssa.Convert) Val {
	from, to := f.subst(x.X.Type()), f.subst(x.Type())
	v := f.asTerm(f.get(x.X))
	fs, ts := f.sortOf(from), f.sortOf(to)
	if fs == ts {
		if fs == SInt {
			f.ctx.trusted["integer conversions treated as mathematical identity (no truncation)"] = true
		}
		return v
	}
	switch {
	case fs == SInt && ts == SFlt:
		return f.ctx.uf("i2f", SFlt, v)
	case fs == SFlt && ts == SInt:
		return f.ctx.uf("f2i", SInt, v)
	case fs == SInt && ts == SStr:
		return f.ctx.uf("rune2str", SStr, v)
	case fs == SSlc && ts == SStr:
		return f.ctx.uf("bytes2str", SStr, v, f.ctx.comp(st, f.eName(types.Typ[types.Byte]), ArrS(SInt, ArrS(SInt, SInt))))
	case fs == SStr && ts == SSlc:
		ref := f.newRef(st, "str2bytes")
		ln := f.ctx.uf("strlen", SInt, v)
		return MkSlice(ref, IntLit(0), ln, ln)
	}
	panic(unsupported(fmt.Sprintf("convert %s -> %s", from, to)))
}

func isErrorType(t types.Type) bool {
	n, ok := types.Unalias(t).(*types.Named)
	return ok && n.Obj().Pkg() == nil && n.Obj().Name() == "error"
}

func isIfaceT(t types.Type) bool {
	if _, isTP := types.Unalias(t).(*types.TypeParam); isTP {
		return false
	}
	_, ok := t.Underlying().(*types.Interface)
	return ok
}

func (f *Frame) box(v *Term, t types.Type) *Term {
	t = f.subst(t)
	if isIfaceT(t) {
		return v
	}
	id := f.ctx.eng.sorts.TypeID(t)
	fn := fmt.Sprintf("box!%d", id)
	b := f.ctx.uf(fn, SAny, v)
	key := "box:" + b.String()
	if !f.ctx.assumed[key] {
		f.ctx.assumed[key] = true
		f.ctx.assume(Eq(App("typeof", SInt, b), IntLit(int64(id))))
		f.ctx.assume(Eq(f.ctx.uf(fmt.Sprintf("unbox!%d", id), v.S, b), v))
	}
	return b
}

func (f *Frame) typeAssert(x *ssa.TypeAssert, r *Term) Val {
	v := f.asTerm(f.get(x.X))
	at := f.subst(x.AssertedType)
	if isIfaceT(at) {
		ok := f.ctx.fresh("implements", SBool)
		f.ctx.assume(Implies(ok, Neq(v, Atom("anynil", SAny))))
		if x.CommaOk {
			return TupleVal{v, ok}
		}
		f.check("safe", "type-assert:"+describe(x.X)+".("+f.ctx.eng.sorts.typeName(at)+")", r, ok, x.Pos())
		return v
	}
	id := f.ctx.eng.sorts.TypeID(at)
	ok := Eq(App("typeof", SInt, v), IntLit(int64(id)))
	res := f.ctx.uf(fmt.Sprintf("unbox!%d", id), f.sortOf(at), v)
	f.ctx.declFun(fmt.Sprintf("box!%d", id), []Sort{f.sortOf(at)}, SAny)
	if x.CommaOk {
		return TupleVal{Ite(ok, res, f.zero(at)), ok}
	}
	f.check("safe", "type-assert:"+describe(x.X)+".("+f.ctx.eng.sorts.typeName(at)+")", r, ok, x.Pos())
	return res
}

func (f *Frame) sliceOp(st *State, r *Term, x *ssa.Slice) Val {
	xt := f.subst(x.X.Type())
	opt := func(v ssa.Value) *Term {
		if v == nil {
			return nil
		}
		return f.term(v)
	}
	lo, hi, mx := opt(x.Low), opt(x.High), opt(x.Max)
	if lo == nil {
		lo = IntLit(0)
	}
	switch u := xt.Underlying().(type) {
	case *types.Slice:
		s := f.term(x.X)
		if hi == nil {
			hi = SlcLen(s)
		}
		capv := SlcCap(s)
		if mx != nil {
			f.check("safe", "slice-bounds:"+describe(x.X), r, And(Le(IntLit(0), lo), Le(lo, hi), Le(hi, mx), Le(mx, capv)), x.Pos())
			capv = mx
		} else {
			f.check("safe", "slice-bounds:"+describe(x.X), r, And(Le(IntLit(0), lo), Le(lo, hi), Le(hi, capv)), x.Pos())
		}
		return MkSlice(SlcBase(s), Add(SlcOff(s), lo), Sub(hi, lo), Sub(capv, lo))
	case *types.Pointer:
		at := u.Elem().Underlying().(*types.Array)
		l := f.asLoc(f.get(x.X), xt)
		if !(l.kind == locHeap && len(l.path) == 0) {
			panic(unsupported("slice of interior array"))
		}
		n := IntLit(at.Len())
		if hi == nil {
			hi = n
		}
		f.check("safe", "slice-bounds:"+describe(x.X), r, And(Le(IntLit(0), lo), Le(lo, hi), Le(hi, n)), x.Pos())
		return MkSlice(l.ref, lo, Sub(hi, lo), Sub(n, lo))
	case *types.Basic:
		s := f.term(x.X)
		ln := f.ctx.uf("strlen", SInt, s)
		if hi == nil {
			hi = ln
		}
		f.check("safe", "slice-bounds:"+describe(x.X), r, And(Le(IntLit(0), lo), Le(lo, hi), Le(hi, ln)), x.Pos())
		res := f.ctx.uf("substr", SStr, s, lo, hi)
		f.ctx.assume(Eq(f.ctx.uf("strlen", SInt, res), Sub(hi, lo)))
		return res
	}
	panic(unsupported("slice of " + xt.String()))
}

func (f *Frame) mapRead(st *State, mt *types.Map, m, k *Term) (val, found *Term) {
	ks, vs := f.sortOf(mt.Key()), f.sortOf(mt.Elem())
	D := f.ctx.comp(st, f.mdName(mt.Key(), mt.Elem()), ArrS(SInt, ArrS(ks, SBool)))
	V := f.ctx.comp(st, f.mvName(mt.Key(), mt.Elem()), ArrS(SInt, ArrS(ks, vs)))
	found = And(Neq(m, IntLit(0)), Select(Select(D, m), k))
	val = Ite(found, Select(Select(V, m), k), f.zero(mt.Elem()))
	return
}

func (f *Frame) mapStore(st *State, r *Term, mt *types.Map, m, k, v *Term) {
	ks, vs := f.sortOf(mt.Key()), f.sortOf(mt.Elem())
	dn, vn := f.mdName(mt.Key(), mt.Elem()), f.mvName(mt.Key(), mt.Elem())
	D := f.ctx.comp(st, dn, ArrS(SInt, ArrS(ks, SBool)))
	V := f.ctx.comp(st, vn, ArrS(SInt, ArrS(ks, vs)))
	st.heap[dn] = f.ctx.name("MD", Store(D, m, Store(Select(D, m), k, True)))
	st.heap[vn] = f.ctx.name("MV", Store(V, m, Store(Select(V, m), k, v)))
}

func (f *Frame) lookup(st *State, r *Term, x *ssa.Lookup) Val {
	xt := f.subst(x.X.Type())
	switch u := xt.Underlying().(type) {
	case *types.Map:
		m := f.term(x.X)
		k := f.asTerm(f.get(x.Index))
		val, found := f.mapRead(st, u, m, k)
		val = f.nameLoaded(st, val, u.Elem())
		if x.CommaOk {
			return TupleVal{val, found}
		}
		return val
	case *types.Basic:
		s := f.term(x.X)
		idx := f.term(x.Index)
		f.check("safe", "index:"+describe(x.X), r, And(Le(IntLit(0), idx), Lt(idx, f.ctx.uf("strlen", SInt, s))), x.Pos())
		return f.ctx.uf("strat", SInt, s, idx)
	}
	panic(unsupported("lookup on " + xt.String()))
}

func (f *Frame) next(st *State, r *Term, x *ssa.Next) Val {
	if lr := f.loopRun; lr != nil && x.Iter == ssa.Value(lr.rg) {
		return lr.next
	}
	it, ok := f.get(x.Iter).(RangeIterVal)
	if !ok {
		panic(unsupported("next on unknown iterator"))
	}
	mt := it.T.Underlying().(*types.Map)
	ks := f.sortOf(mt.Key())
	okv := f.ctx.fresh("more", SBool)
	k := f.ctx.fresh("k", ks)
	vis := f.visited[it.Instr]
	if vis == nil {
		panic(unsupported("map range outside loop header"))
	}
	kb := Atom("kq", ks)
	f.ctx.assume(Implies(okv, And(Select(it.Dom0, k), Not(Select(vis, k)))))
	f.ctx.assume(Implies(Not(okv), Forall([]*Term{kb}, Implies(Select(it.Dom0, kb), Select(vis, kb)), []*Term{Select(it.Dom0, kb)})))
	val, _ := f.mapRead(st, mt, it.X.(*Term), k)
	val = f.nameLoaded(st, val, mt.Elem())
	f.curKey[it.Instr] = k
	return TupleVal{okv, k, val}
}

func (f *Frame) runDefers(st *State, r *Term, at *ssa.BasicBlock) {
	for i := len(f.defers) - 1; i >= 0; i-- {
		d := f.defers[i]
		if d.Block() != at && !d.Block().Dominates(at) {
			continue
		}
		f.call(st, r, d, &d.Call)
	}
}

// bindingChecks: `binds` clauses of a method with a value receiver are checked where a method value
// (r.method) is created: the receiver is copied into the closure at that point, so what holds of it then
// holds whenever the closure is called (non-nil maps stay non-nil). Calls through the function value are
// not checked again; the method itself assumes the clause.
func (f *Frame) bindingChecks(st *State, r *Term, mc *ssa.MakeClosure, bs []Val) {
	cf, ok := mc.Fn.(*ssa.Function)
	if !ok || cf.Synthetic == "" || len(bs) != 1 || !strings.HasSuffix(cf.Name(), "$bound") {
		return
	}
	m, ok := cf.Object().(*types.Func)
	if !ok {
		return
	}
	target := f.ctx.eng.prog.FuncValue(m)
	if target == nil {
		return
	}
	ct := f.ctx.eng.contractFor(target)
	if ct == nil {
		return
	}
	for i, rq := range ct.Requires {
		if !rq.Binding {
			continue
		}
		if _, isPtr := target.Signature.Recv().Type().Underlying().(*types.Pointer); isPtr {
			sfail("binds clause on %s: only methods with a value receiver can be bound (a pointer receiver may change afterwards)", ct.Key)
		}
		tf := &Frame{ctx: f.ctx, fn: target, tmap: TMap{}, vals: map[ssa.Value]Val{target.Params[0]: bs[0]}, parent: f, depth: f.depth + 1, ghosts: map[string]SVal{}, curKey: map[*ssa.Range]*Term{}}
		tf.entry = st
		se := tf.specEnv(st, st)
		se.positive = false
		t := se.evalBool(rq.Expr)
		label := rq.Label
		if label == "" {
			label = fmt.Sprint(i)
		}
		f.check("pre", "->bind:"+shortKey(ct.Key)+":"+label, r, t, mc.Pos())
	}
}
