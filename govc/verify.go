package main

// Top-level verification of one function against its contract, and modular use of contracts at
// call sites.

import (
	"fmt"
	"os"
	"go/token"
	"go/types"
	"sort"
	"strings"

	"golang.org/x/tools/go/ssa"
)

// FuncResult is what verifying one function produced.
type FuncResult struct {
	Key         string
	Fn          *ssa.Function
	Ctx         *Ctx
	Obligs      []*Oblig
	Unsupported string
	ContractErr string
	Cover       *Oblig
	PathCovers  []*Oblig // partial claims: one reachability cover per claimed obligation (its path must not be dead)
	Frame       *Frame // top frame (parameters, entry state) for replay generators
	Instrs      int
}

type VerifyOpts struct {
	CopyRel    bool     // generate C18 copy-relation postconditions from the result type
	FrameFresh bool     // check that all writes go to fresh memory
	ExtraPost  func(f *Frame, exit *State, results []SVal) []namedTerm
	ExtraPre   func(f *Frame, st *State) []*Term
	NoContract bool // ignore the function's own contract clauses except nopanic-relevant loops
	OnlyKinds  []string // keep only obligations of these kinds (the others belong to another property)
	OnlyNames  []string // keep only obligations whose name contains one of these substrings (partial claim of a function)
	PathCovers bool     // add a reachability cover per kept obligation (claims that leave out obligation kinds)
	Sweep      bool // safety sweep: standing preconditions (non-nil pointer receiver, non-nil function parameters)
}

type namedTerm struct {
	Name string
	T    *Term
}

func (e *Engine) VerifyFunc(fn *ssa.Function, opts VerifyOpts) (res *FuncResult) {
	ctx := newCtx(e, fn)
	res = &FuncResult{Key: ctx.fnKey, Fn: fn, Ctx: ctx, Instrs: e.instrCount(fn)}
	defer func() {
		if r := recover(); r != nil {
			switch er := r.(type) {
			case unsupportedErr:
				res.Unsupported = er.msg
			case specErr:
				res.ContractErr = er.msg
			default:
				if os.Getenv("GOVC_PANIC") != "" {
					panic(r)
				}
				res.Unsupported = fmt.Sprintf("internal error: %v", r)
			}
		}
		res.Obligs = ctx.obligs
		allObligs := ctx.obligs
		defer func() {
			if !(len(opts.OnlyNames) > 0 || opts.PathCovers) {
				return
			}
			// the obligations this claim leaves out are ASSUMED on the paths behind them; an assumption that
			// cannot hold where it is made (its goal is false on its path) kills the path and makes every
			// claimed obligation behind it vacuous: each left-out obligation gets a cover showing that
			// assuming it leaves its path alive
			kept := map[*Oblig]bool{}
			for _, o := range res.Obligs {
				kept[o] = true
			}
			for _, o := range allObligs {
				if kept[o] || o.Reach == nil || o.Cond == nil || o.Kind == "cover" || o.Cond.Op == "false" {
					continue // (a constant-false goal is never assumed, see check)
				}
				res.PathCovers = append(res.PathCovers, &Oblig{Name: "cover:assumed:" + o.Name, Kind: "cover", Func: o.Func, CtxLen: o.CtxLen, Goal: Not(And(o.Reach, o.Cond)), Reach: o.Reach, Expect: "sat", ctx: ctx})
			}
		}()
		if len(opts.OnlyKinds) > 0 {
			var kept []*Oblig
			for _, o := range ctx.obligs {
				for _, k := range opts.OnlyKinds {
					if o.Kind == k {
						kept = append(kept, o)
					}
				}
			}
			res.Obligs = kept
		}
		if len(opts.OnlyNames) > 0 {
			var kept []*Oblig
			for _, o := range res.Obligs {
				for _, k := range opts.OnlyNames {
					if strings.Contains(o.Name, k) {
						kept = append(kept, o)
						break
					}
				}
			}
			res.Obligs = kept
		}
		if len(opts.OnlyNames) > 0 || opts.PathCovers {
			// a claim that leaves out some obligations of the function is proved assuming those hold; if one
			// of them cannot hold, the paths behind it are dead and everything on them is vacuously true:
			// every claimed obligation gets a cover showing that its own path is alive
			for _, o := range res.Obligs {
				if o.Reach == nil || o.Kind == "cover" {
					continue
				}
				res.PathCovers = append(res.PathCovers, &Oblig{Name: "cover:" + o.Name, Kind: "cover", Func: o.Func, CtxLen: o.CtxLen, Goal: Not(o.Reach), Expect: "sat", ctx: ctx})
			}
		}
	}()
	ct := e.contractFor(fn)
	f := &Frame{ctx: ctx, fn: fn, tmap: TMap{}, vals: map[ssa.Value]Val{}, contract: ct, curKey: map[*ssa.Range]*Term{}, ghosts: map[string]SVal{}}
	f.checkFrame = opts.FrameFresh || (ct != nil && ct.Fresh)
	res.Frame = f
	st := &State{heap: map[string]*Term{}, locals: map[*ssa.Alloc]*Term{}}
	st.alloc = ctx.constant("alloc@entry", SInt)
	ctx.assume(Gt(st.alloc, IntLit(0)))
	// parameters
	for pi, p := range fn.Params {
		t := f.subst(p.Type())
		pname := p.Name()
		if pname == "_" || pname == "" {
			pname = fmt.Sprintf("_%d", pi)
		}
		if _, isSig := t.Underlying().(*types.Signature); isSig {
			v := ctx.constant("param!"+pname, SInt)
			f.vals[p] = v
			continue
		}
		v := ctx.constant("param!"+pname, f.sortOf(t))
		f.vals[p] = v
		f.assumeWf(st, v, t)
	}
	for _, p := range fn.FreeVars {
		t := f.subst(p.Type())
		v := ctx.constant("free!"+p.Name(), f.sortOf(t))
		f.vals[p] = v
		f.assumeWf(st, v, t)
		ctx.assume(Neq(v, IntLit(0)))
	}
	f.entry = st
	f.bindParamNames(ct)
	if opts.Sweep {
		if recv := fn.Signature.Recv(); recv != nil && len(fn.Params) > 0 {
			if _, isPtr := f.subst(recv.Type()).Underlying().(*types.Pointer); isPtr {
				if rt, ok := f.vals[fn.Params[0]].(*Term); ok {
					ctx.assume(Neq(rt, IntLit(0)))
					ctx.trusted["standing precondition: pointer receivers are non-nil (checked at every call site inside the swept packages)"] = true
				}
			}
		}
		for _, p := range fn.Params {
			pt := f.subst(p.Type())
			if _, isSig := pt.Underlying().(*types.Signature); isSig {
				ctx.assume(Neq(f.vals[p].(*Term), IntLit(0)))
				ctx.trusted["standing precondition: function-typed parameters are non-nil"] = true
			}
			if sl, isSl := pt.Underlying().(*types.Slice); isSl {
				if _, isSig := sl.Elem().Underlying().(*types.Signature); isSig {
					s := f.vals[p].(*Term)
					E := ctx.comp(st, f.eName(sl.Elem()), ArrS(SInt, ArrS(SInt, SInt)))
					j := Atom("j!q0", SInt)
					el := Select(Select(E, SlcBase(s)), Slot(SlcOff(s), j))
					ctx.assume(Forall([]*Term{j}, Implies(And(Le(IntLit(0), j), Lt(j, SlcLen(s))), Neq(el, IntLit(0))), []*Term{el}))
					ctx.trusted["standing precondition: option slices (variadic functional options) contain no nil function"] = true
				}
			}
			if tmpl := standingInvariant(e.sorts.typeName(pt)); tmpl != "" && p.Name() != "_" && p.Name() != "" && !strings.HasPrefix(ctx.fnKey, "orderedmap.") {
				src := strings.ReplaceAll(tmpl, "$p", p.Name())
				ex, err := ParseSpecExpr(src)
				if err != nil {
					panic(specErr{err.Error()})
				}
				se := f.specEnv(st, st)
				se.positive = true
				se.site = "pre"
				ctx.assume(se.evalBool(ex))
				f.autoInv = append(f.autoInv, Clause{Label: "standing:" + p.Name(), Expr: ex, Text: src})
				ctx.trusted["standing IR invariant assumed at entry: "+tmpl+" (established by NewSchema / the parsers / orderedmap.New)"] = true
			}
		}
	}
	entrySnap := func() { f.entry = &State{heap: copyHeap(st.heap), locals: map[*ssa.Alloc]*Term{}, alloc: st.alloc, base: st.base} }
	// preconditions
	if ct != nil {
		for _, rq := range ct.Assumes {
			se := f.specEnv(st, st)
			se.positive = true
			se.site = "pre"
			ctx.assume(se.evalBool(rq.Expr))
			ctx.trusted["standing IR assumption of "+ct.Key+": "+rq.Text] = true
		}
		for _, rq := range ct.Requires {
			se := f.specEnv(st, st)
			se.positive = true
			se.site = "pre"
			ctx.assume(se.evalBool(rq.Expr))
		}
		for _, g := range ct.Ghosts {
			se := f.specEnv(st, st)
			se.pol = 0
			se.presite = "pre"
			v := se.eval(g.Expr)
			if t, ok := v.V.(*Term); ok {
				v.V = ctx.name("ghost!"+g.Name, t)
			}
			f.ghosts[g.Name] = v
		}
	}
	if ct != nil && (ct.ModifiesSet || ct.Fresh) {
		f.modLocs = f.evalModLocs(ct, st)
		f.checkFrame = true
	}
	if ct != nil && ct.CopyFamily {
		f.trackOwn = true
		st.heap[coComp] = ConstArr(ArrS(SInt, SBool), False)
		e.compSeen[coComp] = ArrS(SInt, SBool)
		if _, isPtr := f.subst(fn.Params[0].Type()).Underlying().(*types.Pointer); isPtr {
			ctx.assume(Neq(f.asTerm(f.vals[fn.Params[0]]), IntLit(0)))
		}
		prev := opts.ExtraPost
		opts.ExtraPost = func(ff *Frame, exit *State, rs []SVal) []namedTerm {
			out := ff.copyObligations(exit, rs)
			if prev != nil {
				out = append(out, prev(ff, exit, rs)...)
			}
			return out
		}
	}
	if opts.ExtraPre != nil {
		for _, t := range opts.ExtraPre(f, st) {
			ctx.assume(t)
		}
	}
	// components touched while evaluating the preconditions are part of the entry state
	entrySnap()
	pre := f.entry
	exit, reach, results := f.run(st, True)
	// postconditions
	var rs []SVal
	sig := fn.Signature
	for i, r := range results {
		rs = append(rs, SVal{r, f.subst(sig.Results().At(i).Type())})
	}
	if reach.Op == "false" {
		return res
	}
	if ct != nil {
		for i, en := range ct.Ensures {
			se := f.specEnv(exit, pre)
			se.results = rs
			se.positive = false
			se.wit, se.witParam = en.Wit, en.WitParam
			se.presite = "pre"
			t := se.evalBool(en.Expr)
			label := en.Label
			if label == "" {
				label = fmt.Sprint(i)
			}
			f.check("post", label, reach, t, fn.Pos())
		}
	}
	defer func() {
		res.Cover = &Oblig{Name: "cover:" + ctx.fnKey + ":return", Kind: "cover", Func: ctx.fnKey, CtxLen: len(ctx.cmds), Goal: Not(reach), Expect: "sat", ctx: ctx}
	}()
	if opts.ExtraPost != nil {
		for _, nt := range opts.ExtraPost(f, exit, rs) {
			kind := "post"
			name := nt.Name
			if i := strings.Index(name, "|"); i >= 0 {
				kind, name = name[:i], name[i+1:]
			}
			f.check(kind, name, reach, nt.T, fn.Pos())
		}
	}
	return res
}

func copyHeap(h map[string]*Term) map[string]*Term {
	n := make(map[string]*Term, len(h))
	for k, v := range h {
		n[k] = v
	}
	return n
}

// contractCall applies a callee's contract at a call site.
func (f *Frame) contractCall(st *State, r *Term, target *ssa.Function, tmap TMap, ct *Contract, bindings, args []Val, pos token.Pos) Val {
	ctx := f.ctx
	ctx.eng.callSiteN++
	siteN := ctx.eng.callSiteN
	cf := &Frame{ctx: ctx, fn: target, tmap: tmap, vals: map[ssa.Value]Val{}, parent: f, depth: f.depth + 1, ghosts: map[string]SVal{}, curKey: map[*ssa.Range]*Term{}}
	if len(args) != len(target.Params) {
		panic(unsupported(fmt.Sprintf("contract call arity %s", target.Name())))
	}
	for i, p := range target.Params {
		cf.vals[p] = args[i]
	}
	for i, fv := range target.FreeVars {
		if i < len(bindings) {
			cf.vals[fv] = bindings[i]
		}
	}
	f.havocClosureCells(st, args)
	preLocals := make(map[*ssa.Alloc]*Term, len(st.locals))
	for k, v := range st.locals {
		preLocals[k] = v
	}
	pre := &State{heap: copyHeap(st.heap), locals: preLocals, alloc: st.alloc, base: st.base}
	cf.entry = pre
	calleeShort := shortKey(ct.Key)
	presite := fmt.Sprintf("call%dpre", siteN)
	if ct.CopyFamily {
		if _, isPtr := cf.subst(target.Params[0].Type()).Underlying().(*types.Pointer); isPtr {
			if rt, isTerm := args[0].(*Term); isTerm {
				f.check("pre", "->"+calleeShort+":receiver-non-nil", r, Neq(rt, IntLit(0)), pos)
			}
		}
	}
	for i, rq := range ct.Requires {
		se := cf.specEnv(pre, pre)
		se.positive = false
		se.wit, se.witParam = rq.Wit, rq.WitParam
		f.useActiveWitnesses(se, st)
		t := se.evalBool(rq.Expr)
		label := rq.Label
		if label == "" {
			label = fmt.Sprint(i)
		}
		f.check("pre", "->"+calleeShort+":"+label, r, t, pos)
		// proven: assume it positively so that its existentials get skolem functions for this site
		se2 := cf.specEnv(pre, pre)
		se2.positive = true
		se2.site = presite
		ctx.assume(Implies(r, se2.evalBool(rq.Expr)))
	}
	for _, g := range ct.Ghosts {
		se := cf.specEnv(pre, pre)
		se.pol = 0
		se.presite = presite
		v := se.eval(g.Expr)
		if t, ok := v.V.(*Term); ok {
			v.V = ctx.name("ghost!"+g.Name, t)
		}
		cf.ghosts[g.Name] = v
	}
	// components read by the preconditions exist in both pre and st
	for k, v := range pre.heap {
		if _, ok := st.heap[k]; !ok {
			st.heap[k] = v
		}
	}
	// effects
	if !ct.Pure {
		eff := &effects{top: true}
		if len(target.Blocks) > 0 {
			eff = ctx.eng.effectsOf(target, f)
		}
		if spareCapacity(ct) {
			// the callee may write spare capacity anywhere: nothing is known about element arrays (E.*)
			// afterwards; the other components change only where the rest of its write frame says
			f.frameCheckCall(st, r, calleeShort, nil, false, pos)
			locs := cf.evalModLocs(ct, pre)
			comps := map[string]Sort{}
			for _, l := range locs {
				comps[l.comp] = l.srt
			}
			old := copyHeap(st.heap)
			oldBase := st.base
			earr := map[string]Sort{}
			for name, srt := range ctx.eng.compSeen {
				if strings.HasPrefix(name, "E.") {
					earr[name] = srt
				}
			}
			for name, t := range st.heap {
				if strings.HasPrefix(name, "E.") {
					earr[name] = t.S
				}
			}
			all := map[string]Sort{}
			for k, v := range comps {
				all[k] = v
			}
			for k, v := range earr {
				all[k] = v
			}
			f.havocComps(st, all)
			names := make([]string, 0, len(comps))
			for k := range comps {
				if _, isE := earr[k]; !isE {
					names = append(names, k)
				}
			}
			sort.Strings(names)
			for _, k := range names {
				before, ok := old[k]
				if !ok {
					before = ctx.constant(fmt.Sprintf("%s@%d", k, oldBase), comps[k])
				}
				ctx.assume(f.frameAxiom(k, before, st.heap[k], locs, pre.alloc))
			}
		} else if ct.ModifiesSet || ct.Fresh {
			locs := cf.evalModLocs(ct, pre)
			f.frameCheckCall(st, r, calleeShort, locs, true, pos)
			// Only the components named by the write frame change at pre-existing references. Memory
			// the callee allocates was never constrained before (nothing is ever asserted about
			// references >= the allocation counter), so it needs no havoc: the callee's
			// postconditions simply reveal its contents.
			comps := map[string]Sort{}
			for _, l := range locs {
				comps[l.comp] = l.srt
			}
			_ = eff
			old := copyHeap(st.heap)
			oldBase := st.base
			f.havocComps(st, comps)
			names := make([]string, 0, len(comps))
			for k := range comps {
				names = append(names, k)
			}
			sort.Strings(names)
			for _, k := range names {
				before, ok := old[k]
				if !ok {
					before = ctx.constant(fmt.Sprintf("%s@%d", k, oldBase), comps[k])
				}
				ctx.assume(f.frameAxiom(k, before, st.heap[k], locs, pre.alloc))
			}
		} else {
			if eff.top || len(eff.comps) > 0 {
				f.frameCheckCall(st, r, calleeShort, nil, false, pos)
			}
			if eff.top {
				// `keeps P`: the fields of the structs whose name starts with P survive the havoc
				kept := map[string]*Term{}
				for _, pfx := range ct.Keeps {
					for _, pk := range ctx.eng.pkgs {
						if pk.Types == nil || pkgID(pk.Types)+"." != pfx {
							continue
						}
						sc := pk.Types.Scope()
						for _, name := range sc.Names() {
							tn, ok := sc.Lookup(name).(*types.TypeName)
							if !ok || tn.IsAlias() {
								continue
							}
							nt, ok := tn.Type().(*types.Named)
							if !ok || nt.TypeParams().Len() > 0 {
								continue
							}
							if _, isStruct := nt.Underlying().(*types.Struct); !isStruct {
								continue
							}
							si := f.structInfo(nt)
							for i := range si.Fields {
								n := compF(si, i)
								kept[n] = ctx.comp(st, n, ArrS(SInt, si.Fields[i].Sort))
							}
						}
					}
				}
				f.havocTop(st)
				for n, t := range kept {
					st.heap[n] = t
				}
			} else {
				f.havocComps(st, eff.comps)
			}
		}
	}
	if !ct.Pure {
		f.invalidateRegisters(st)
	}
	// results
	sig := target.Signature
	var rs []SVal
	var out TupleVal
	var pureVals TupleVal
	if ct.Pure {
		// the results of a pure function are the values of its (uninterpreted) result functions, so
		// that they coincide with call(...) terms in specifications
		if pv, ok := f.pureCall(pre, r, target, tmap, ct, args, pos); ok {
			if tv, isT := pv.(TupleVal); isT {
				pureVals = tv
			} else {
				pureVals = TupleVal{pv}
			}
		}
	}
	for i := 0; i < sig.Results().Len(); i++ {
		t := cf.subst(sig.Results().At(i).Type())
		var v *Term
		if len(pureVals) == sig.Results().Len() {
			v = f.asTerm(pureVals[i])
		} else {
			v = ctx.fresh("res!"+shortKey(ct.Key), cf.sortOf(t))
		}
		f.assumeWf(st, v, t)
		rs = append(rs, SVal{v, t})
		out = append(out, v)
	}
	if ct.CopyFamily {
		// only callees that establish abstract copy relations keep their memory to themselves;
		// constructors such as orderedmap.New hand theirs over to the caller
		f.markCalleeOwned(st, pre.alloc, st.alloc)
	}
	if ct.CopyFamily && len(out) == 1 {
		ctx.assume(Implies(r, f.copyEnsures(cf, target, pre, st, args, out[0].(*Term), rs[0].T)))
	}
	for _, en := range ct.Ensures {
		if mentionsLetRegister(en.Expr, ct) {
			// a postcondition phrased over a ghost value of the callee's own run (at-call let) says
			// nothing a caller can use
			continue
		}
		se := cf.specEnv(st, pre)
		se.results = rs
		se.positive = true
		se.site = fmt.Sprintf("call%d", siteN)
		se.presite = presite
		ctx.assume(Implies(r, se.evalBool(en.Expr)))
	}
	if ct.Trusted {
		ctx.trusted["assumed contract: "+ct.Key] = true
	}
	if len(out) == 1 {
		return out[0]
	}
	return out
}


// useActiveWitnesses lets a callee precondition be proved with the witnesses the caller's loop supplies.
func (f *Frame) useActiveWitnesses(se *specEnv, st *State) {
	p := f
	for p != nil && p.activeWit == nil {
		p = p.parent
	}
	if p == nil || se.wit != nil {
		return
	}
	se.wit, se.witParam = p.activeWit.Wit, p.activeWit.WitParam
	we := p.specEnv(st, p.top().entry)
	we.loop, we.lenv = p.activeWitLoop, p.activeWitEnv
	we.presite = "pre"
	se.witEnv = we
}

// standingInvariant: IR well-formedness assumed for parameters of the given type in the safety sweep.
func standingInvariant(typeName string) string {
	switch {
	case typeName == "*ast.Schema":
		return "$p != nil && wf($p.Objects)"
	case typeName == "ast.Schemas" || typeName == "[]*ast.Schema":
		return "forall j: int :: 0 <= j && j < len($p) ==> $p[j] != nil && wf($p[j].Objects)"
	case typeName == "*jsonschema.generator":
		return "$p != nil && $p.schema != nil && wf($p.schema.Objects) && $p.seen != nil"
	case typeName == "*openapi.generator":
		return "$p != nil && $p.schema != nil && wf($p.schema.Objects)"
	case typeName == "*github.com/santhosh-tekuri/jsonschema/v5.Schema" || typeName == "*github.com/getkin/kin-openapi/openapi3.Schema":
		return "$p != nil"
	case typeName == "*compiler.Visitor":
		return "$p != nil && wf($p.newObjects)"
	case typeName == "*ast.BuilderVisitor":
		return "$p != nil"
	case strings.HasPrefix(typeName, "*orderedmap.Map["):
		return "$p != nil ==> wf($p)"
	}
	return ""
}

// invalidateRegisters: a callee whose body is not executed here may itself call traced functions, so the
// last-call registers are unknown afterwards.
func (f *Frame) invalidateRegisters(st *State) {
	var regs []string
	for name := range f.ctx.eng.compSeen {
		if strings.HasPrefix(name, "$lastarg!") || strings.HasPrefix(name, "$lastres!") {
			regs = append(regs, name)
		}
	}
	sort.Strings(regs)
	for _, name := range regs {
		st.heap[name] = f.ctx.fresh("reg", f.ctx.eng.compSeen[name])
	}
}

// mentionsLetRegister: the expression reads a `$name` that an at-call let clause of ct defines.
func mentionsLetRegister(e *SExpr, ct *Contract) bool {
	if e == nil {
		return false
	}
	if e.Kind == SIdent && strings.HasPrefix(e.Name, "$") {
		for _, ac := range ct.AtCalls {
			if ac.Let != "" && "$"+ac.Let == e.Name {
				return true
			}
		}
	}
	for _, a := range e.Args {
		if mentionsLetRegister(a, ct) {
			return true
		}
	}
	for _, a := range e.Witness {
		if mentionsLetRegister(a, ct) {
			return true
		}
	}
	return false
}
