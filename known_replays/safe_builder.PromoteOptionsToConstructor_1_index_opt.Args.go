// pkg: internal/veneers/builder
package builder

import (
	"testing"

	"github.com/grafana/cog/internal/ast"
)

// promote_options_to_constructor naming an option that takes no argument
func TestGovcReplay(t *testing.T) {
	builders := ast.Builders{{
		Package: "pkg", Name: "Foo",
		For:     ast.NewObject("pkg", "Foo", ast.NewStruct()),
		Options: []ast.Option{{Name: "enable"}},
	}}
	rule := PromoteOptionsToConstructor(EveryBuilder(), []string{"enable"})
	defer func() {
		if r := recover(); r != nil {
			t.Fatalf("panic: %v", r)
		}
	}()
	_, err := rule(ast.Schemas{}, builders)
	t.Logf("err = %v", err)
}
