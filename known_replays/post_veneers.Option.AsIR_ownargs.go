// pkg: internal/veneers/builder
package builder

import (
	"testing"

	"github.com/grafana/cog/internal/ast"
	"github.com/grafana/cog/internal/veneers"
	"github.com/grafana/cog/internal/veneers/option"
)

// add_option on two builders, then rename_arguments on the option of the FIRST builder only: the second
// builder's option (which was not selected) is renamed as well - both share the configured argument list
func TestGovcReplay(t *testing.T) {
	mk := func(pkg string) ast.Builder {
		return ast.Builder{Package: pkg, Name: "Foo", For: ast.NewObject(pkg, "Foo", ast.NewStruct(ast.NewStructField("title", ast.String())))}
	}
	builders := ast.Builders{mk("a"), mk("b")}
	arg := ast.Argument{Name: "title", Type: ast.String()}
	newOpt := veneers.Option{Name: "withTitle", Arguments: []ast.Argument{arg}, Assignments: []veneers.Assignment{{Path: "title", Method: ast.DirectAssignment, Value: veneers.AssignmentValue{Argument: &arg}}}}
	builders, err := AddOption(EveryBuilder(), newOpt)(ast.Schemas{}, builders)
	if err != nil {
		t.Fatal(err)
	}
	// an option rule selecting builder a only
	builders[0].Options = option.RenameArgumentsAction([]string{"newTitle"})(ast.Schemas{}, builders[0], builders[0].Options[0])
	if got := builders[1].Options[0].Args[0].Name; got != "title" {
		t.Errorf("the option of builder b was not selected, yet its argument is now called %q", got)
	}
	if got := builders[1].Options[0].Assignments[0].Value.Argument.Name; got != "title" {
		t.Errorf("the option of builder b was not selected, yet its assignment now reads argument %q", got)
	}
}
