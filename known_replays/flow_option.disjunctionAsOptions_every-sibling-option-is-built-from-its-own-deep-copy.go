// pkg: internal/veneers/option
package option

import (
	"testing"

	"github.com/grafana/cog/internal/ast"
	"github.com/stretchr/testify/require"
)

// applies option rules the way rewrite.Rewriter.applyOptionRules does.
func seedC17fApplyRules(builder ast.Builder, rules []RewriteRule) ast.Builder {
	for _, rule := range rules {
		processedOptions := make([]ast.Option, 0, len(builder.Options))

		for _, opt := range builder.Options {
			if !rule.Selector(builder, opt) {
				processedOptions = append(processedOptions, opt)
				continue
			}

			processedOptions = append(processedOptions, rule.Action(ast.Schemas{}, builder, opt)...)
		}

		builder.Options = processedOptions
	}

	return builder
}

// disjunction_as_options on a two-arguments option, followed by a
// rename_arguments targeting only ONE of the resulting options: the sibling
// option was not selected and must be left untouched and well-formed.
func TestGovcReplay(t *testing.T) {
	req := require.New(t)

	disjunctionType := ast.NewDisjunction(ast.Types{
		ast.NewRef("dashboard", "Panel"),
		ast.NewRef("dashboard", "Row"),
	})

	dashboardType := ast.NewStruct(
		ast.NewStructField("key", ast.String()),
		ast.NewStructField("panel", disjunctionType),
	)

	builder := ast.Builder{
		Package: "dashboard",
		Name:    "Dashboard",
		For:     ast.NewObject("dashboard", "Dashboard", dashboardType),
		Options: []ast.Option{
			{
				Name: "withPanel",
				Args: []ast.Argument{
					{Name: "key", Type: ast.String()},
					{Name: "panel", Type: disjunctionType},
				},
				Assignments: []ast.Assignment{
					ast.ArgumentAssignment(
						ast.Path{{Identifier: "key", Type: ast.String()}},
						ast.Argument{Name: "key", Type: ast.String()},
					),
					ast.ArgumentAssignment(
						ast.Path{{Identifier: "panel", Type: disjunctionType}},
						ast.Argument{Name: "panel", Type: disjunctionType},
					),
				},
			},
		},
	}

	result := seedC17fApplyRules(builder, []RewriteRule{
		DisjunctionAsOptions(ByName("dashboard", "Dashboard", "withPanel"), 1),
		// only the "panel" option is selected, "row" is not.
		RenameArguments(ByName("dashboard", "Dashboard", "panel"), []string{"id", "panel"}),
	})

	req.Len(result.Options, 2)

	panelOpt := result.Options[0]
	rowOpt := result.Options[1]
	req.Equal("panel", panelOpt.Name)
	req.Equal("row", rowOpt.Name)

	// the selected option was renamed consistently
	req.Equal("id", panelOpt.Args[0].Name)
	req.Equal("id", panelOpt.Assignments[0].Value.Argument.Name)

	// the unselected sibling is unchanged...
	req.Equal("key", rowOpt.Args[0].Name)
	req.Equal("row", rowOpt.Args[1].Name)
	req.Equal("key", rowOpt.Assignments[0].Value.Argument.Name)

	// ... and every argument used by its assignments is declared by the option
	for _, opt := range result.Options {
		declared := map[string]bool{}
		for _, arg := range opt.Args {
			declared[arg.Name] = true
		}

		for _, assignment := range opt.Assignments {
			if assignment.Value.Argument == nil {
				continue
			}

			req.Truef(declared[assignment.Value.Argument.Name],
				"option %q: assignment to %q uses undeclared argument %q",
				opt.Name, assignment.Path.String(), assignment.Value.Argument.Name,
			)
		}
	}
}
