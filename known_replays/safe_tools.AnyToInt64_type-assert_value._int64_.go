// pkg: internal/tools
package tools

import "testing"

// known finding C04: AnyToInt64 ends with an unchecked value.(int64); any dynamic type outside
// {int, int8..int64, float32, float64} panics. Unsigned integers (what a YAML/CUE front end can
// produce for enum values) are the smallest failing input.
func TestGovcReplay(t *testing.T) {
	defer func() {
		if r := recover(); r != nil {
			t.Fatalf("AnyToInt64(uint8(3)) panicked: %v", r)
		}
	}()
	_ = AnyToInt64(uint8(3))
}
