// pkg: internal/veneers/builder
package builder

import (
	"testing"

	"github.com/grafana/cog/internal/ast"
	"github.com/grafana/cog/internal/testutils"
	"github.com/stretchr/testify/require"
)

// Merging a builder under a nested path must yield options that still assign
// the field they were assigning in the source builder (prefixed by the path),
// with an argument whose type matches the type of that field.
func TestGovcReplay(t *testing.T) {
	custom := ast.NewObject("pkg", "Custom", ast.NewStruct(
		ast.NewStructField("lineWidth", ast.NewScalar(ast.KindInt64)),
		ast.NewStructField("drawStyle", ast.String()),
		ast.NewStructField("fillOpacity", ast.NewScalar(ast.KindFloat64)),
	))
	defaults := ast.NewObject("pkg", "Defaults", ast.NewStruct(
		ast.NewStructField("custom", ast.NewRef("pkg", "Custom")),
	))
	fieldConfig := ast.NewObject("pkg", "FieldConfig", ast.NewStruct(
		ast.NewStructField("defaults", ast.NewRef("pkg", "Defaults")),
	))
	panel := ast.NewObject("pkg", "Panel", ast.NewStruct(
		ast.NewStructField("title", ast.String()),
		ast.NewStructField("fieldConfig", ast.NewRef("pkg", "FieldConfig")),
	))

	schemas := ast.Schemas{
		&ast.Schema{
			Package: "pkg",
			Objects: testutils.ObjectsMap(panel, fieldConfig, defaults, custom),
		},
	}

	for _, tc := range []struct {
		destination string
		underPath   string
	}{
		{destination: "Defaults", underPath: "custom"},
		{destination: "FieldConfig", underPath: "defaults.custom"},
		{destination: "Panel", underPath: "fieldConfig.defaults.custom"},
	} {
		t.Run(tc.destination, func(t *testing.T) {
			req := require.New(t)

			builders := ast.Builders((&ast.BuilderGenerator{}).FromAST(schemas))

			rule := MergeInto(ByName("pkg", tc.destination), "Custom", tc.underPath, nil, nil)
			rewritten, err := rule(schemas, builders)
			req.NoError(err)

			destination, found := rewritten.LocateByName("pkg", tc.destination)
			req.True(found)

			for _, field := range custom.Type.Struct.Fields {
				opt, found := destination.OptionByName(field.Name)
				req.True(found, "option %s was merged", field.Name)
				req.Len(opt.Args, 1)
				req.Len(opt.Assignments, 1)

				assignment := opt.Assignments[0]
				req.Equal(tc.underPath+"."+field.Name, assignment.Path.String(), "option %s still assigns its own field", field.Name)
				req.Equal(field.Type, assignment.Path.Last().Type, "path for option %s is well-typed", field.Name)
				req.Equal(opt.Args[0].Type, assignment.Path.Last().Type, "argument of option %s matches the assigned field", field.Name)
			}
		})
	}
}
