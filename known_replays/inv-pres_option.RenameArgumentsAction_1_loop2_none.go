// pkg: internal/veneers/option
package option

import (
	"testing"

	"github.com/grafana/cog/internal/ast"
)

func TestGovcReplay(t *testing.T) {
	a := ast.Argument{Name: "a", Type: ast.String()}
	b := ast.Argument{Name: "b", Type: ast.NewScalar(ast.KindInt64)}
	opt := ast.Option{Name: "o", Args: []ast.Argument{a, b}, Assignments: []ast.Assignment{
		ast.ArgumentAssignment(ast.Path{{Identifier: "x", Type: ast.String()}}, a),
		ast.ArgumentAssignment(ast.Path{{Identifier: "y", Type: ast.NewScalar(ast.KindInt64)}}, b),
	}}
	out := RenameArgumentsAction([]string{"b", "a"})(nil, ast.Builder{}, opt)
	o := out[0]
	// x was fed by the first argument (string): it must still be fed by the first argument, now named "b"
	if got := o.Assignments[0].Value.Argument.Name; got != o.Args[0].Name {
		t.Fatalf("assignment to x used the first argument; after rename_arguments [b, a] it uses %q but the first argument is named %q (args: %s %s; y uses %q)", got, o.Args[0].Name, o.Args[0].Name, o.Args[1].Name, o.Assignments[1].Value.Argument.Name)
	}
}
