// pkg: internal/ast/compiler
package compiler

import (
	"testing"

	"github.com/grafana/cog/internal/ast"
	"github.com/grafana/cog/internal/testutils"
)

func TestGovcRenameCase(t *testing.T) {
	schema := &ast.Schema{Package: "pkg", Objects: testutils.ObjectsMap(
		ast.NewObject("pkg", "Foo", ast.NewStruct(ast.NewStructField("a", ast.String()))),
		ast.NewObject("pkg", "User", ast.NewStruct(ast.NewStructField("foo", ast.NewRef("pkg", "Foo")))),
	)}
	pass := &RenameObject{From: ObjectReference{Package: "pkg", Object: "foo"}, To: "Bar"}
	out, err := pass.Process(ast.Schemas{schema})
	if err != nil {
		t.Fatal(err)
	}
	user, _ := out[0].LocateObject("User")
	ref := user.Type.Struct.Fields[0].Type.Ref
	if _, found := ast.Schemas(out).LocateObject(ref.ReferredPkg, ref.ReferredType); !found {
		names := []string{}
		out[0].Objects.Iterate(func(k string, _ ast.Object) { names = append(names, k) })
		t.Fatalf("dangling reference %s.%s after rename_object; objects: %v", ref.ReferredPkg, ref.ReferredType, names)
	}
}
