// pkg: internal/ast/compiler
package compiler

import (
	"testing"

	"github.com/grafana/cog/internal/ast"
	"github.com/grafana/cog/internal/testutils"
)

// danglingRefs lists every reference found in the schemas that doesn't resolve to an existing object.
func danglingRefs(t *testing.T, schemas ast.Schemas) []string {
	t.Helper()

	var dangling []string
	visitor := &Visitor{
		OnRef: func(_ *Visitor, _ *ast.Schema, def ast.Type) (ast.Type, error) {
			if _, found := schemas.LocateObjectByRef(def.AsRef()); !found {
				dangling = append(dangling, def.AsRef().String())
			}
			return def, nil
		},
	}

	for _, schema := range schemas {
		schema.Objects.Iterate(func(_ string, object ast.Object) {
			if _, err := visitor.VisitObject(schema, object); err != nil {
				t.Fatal(err)
			}
		})
	}

	return dangling
}

func TestGovcReplay(t *testing.T) {
	schemas := ast.Schemas{
		&ast.Schema{
			Package: "dashboard",
			Objects: testutils.ObjectsMap(
				ast.NewObject("dashboard", "Panel", ast.NewStruct(
					ast.NewStructField("title", ast.String()),
					ast.NewStructField("options", ast.NewRef("dashboard", "Options")),
				)),
				ast.NewObject("dashboard", "Options", ast.NewStruct(
					ast.NewStructField("legend", ast.Bool()),
				)),
			),
		},
	}

	passes := Passes{
		&DuplicateObject{
			Object: ObjectReference{Package: "dashboard", Object: "Panel"},
			As:     ObjectReference{Package: "dashboard", Object: "RowPanel"},
		},
		&PrefixObjectNames{Prefix: "Grafana"},
	}

	var err error
	for _, pass := range passes {
		schemas, err = pass.Process(schemas)
		if err != nil {
			t.Fatal(err)
		}

		if dangling := danglingRefs(t, schemas); len(dangling) != 0 {
			t.Fatalf("after %T: dangling references: %v", pass, dangling)
		}
	}

	for _, name := range []string{"GrafanaPanel", "GrafanaRowPanel", "GrafanaOptions"} {
		if _, found := schemas.LocateObject("dashboard", name); !found {
			t.Fatalf("object %s not found", name)
		}
	}
}
