// pkg: internal/ast
package ast

import "testing"

// known finding C04: same unchecked assertion as ImplementedVariant.
func TestGovcReplay(t *testing.T) {
	defer func() {
		if r := recover(); r != nil {
			t.Fatalf("IsDataqueryVariant panicked on a non-string hint: %v", r)
		}
	}()
	typ := NewStruct()
	typ.Hints[HintImplementsVariant] = 5
	_ = typ.IsDataqueryVariant()
}
