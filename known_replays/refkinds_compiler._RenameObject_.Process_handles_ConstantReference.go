// pkg: internal/ast/compiler
package compiler

import (
	"testing"

	"github.com/grafana/cog/internal/ast"
	"github.com/grafana/cog/internal/testutils"
)

func TestGovcRenameConstantRef(t *testing.T) {
	schema := &ast.Schema{Package: "pkg", Objects: testutils.ObjectsMap(
		ast.NewObject("pkg", "Kind", ast.NewEnum([]ast.EnumValue{{Type: ast.String(), Name: "A", Value: "a"}})),
		ast.NewObject("pkg", "Root", ast.NewStruct(ast.NewStructField("kind", ast.NewConstantReferenceType("pkg", "Kind", "a")))),
	)}
	pass := &RenameObject{From: ObjectReference{Package: "pkg", Object: "Kind"}, To: "PanelKind"}
	out, err := pass.Process(ast.Schemas{schema})
	if err != nil {
		t.Fatal(err)
	}
	root, _ := out[0].LocateObject("Root")
	cref := root.Type.Struct.Fields[0].Type.ConstantReference
	if _, found := ast.Schemas(out).LocateObject(cref.ReferredPkg, cref.ReferredType); !found {
		t.Fatalf("dangling constant reference %s.%s after rename_object pkg.Kind -> PanelKind", cref.ReferredPkg, cref.ReferredType)
	}
}
