// pkg: internal/ast/compiler
package compiler

import (
	"fmt"
	"testing"

	"github.com/grafana/cog/internal/ast"
	"github.com/stretchr/testify/require"
)

// Same list as internal/jennies/golang.(*Language).CompilerPasses()
func seedC06cGoChain() Passes {
	return Passes{
		&AnonymousStructsToNamed{},
		&NotRequiredFieldAsNullableType{},
		&DisjunctionWithNullToOptional{},
		&DisjunctionOfConstantsToEnum{},
		&AnonymousEnumToExplicitType{},
		&PrefixEnumValues{},
		&FlattenDisjunctions{},
		&DisjunctionOfAnonymousStructsToExplicit{},
		&DisjunctionInferMapping{},
		&UndiscriminatedDisjunctionToAny{},
		&DisjunctionToType{},
	}
}

// Same list as internal/jennies/java.(*Language).CompilerPasses()
func seedC06cJavaChain() Passes {
	return Passes{
		&AnonymousStructsToNamed{},
		&NotRequiredFieldAsNullableType{},
		&DisjunctionWithNullToOptional{},
		&DisjunctionOfConstantsToEnum{},
		&AnonymousEnumToExplicitType{},
		&FlattenDisjunctions{},
		&DisjunctionInferMapping{},
		&UndiscriminatedDisjunctionToAny{},
		&DisjunctionToType{},
		&RemoveIntersections{},
	}
}

// seedC06cFindUnions lists the paths at which a disjunction is found.
func seedC06cFindUnions(path string, def ast.Type, found *[]string) {
	switch {
	case def.IsDisjunction():
		*found = append(*found, path)
		for i, branch := range def.Disjunction.Branches {
			seedC06cFindUnions(fmt.Sprintf("%s|%d", path, i), branch, found)
		}
	case def.IsArray():
		seedC06cFindUnions(path+"[]", def.Array.ValueType, found)
	case def.IsMap():
		seedC06cFindUnions(path+"[key]", def.Map.IndexType, found)
		seedC06cFindUnions(path+"[value]", def.Map.ValueType, found)
	case def.IsStruct():
		for _, field := range def.Struct.Fields {
			seedC06cFindUnions(path+"."+field.Name, field.Type, found)
		}
	case def.IsIntersection():
		for i, branch := range def.Intersection.Branches {
			seedC06cFindUnions(fmt.Sprintf("%s&%d", path, i), branch, found)
		}
	}
}

func seedC06cUnionsIn(schemas ast.Schemas) []string {
	var found []string
	for _, schema := range schemas {
		schema.Objects.Iterate(func(_ string, object ast.Object) {
			seedC06cFindUnions(schema.Package+"."+object.Name, object.Type, &found)
		})
	}
	return found
}

func seedC06cInputs() map[string][]ast.Object {
	stringOrBool := func() ast.Type {
		return ast.NewDisjunction([]ast.Type{ast.String(), ast.Bool()})
	}

	return map[string][]ast.Object{
		// what `anyOf: [{type: array, items: {type: [string, boolean]}}]` is parsed into
		"single-branch anyOf holding an array of unions": {
			ast.NewObject("test", "Values", ast.NewStruct(
				ast.NewStructField("items", ast.NewDisjunction([]ast.Type{
					ast.NewArray(stringOrBool()),
				}), ast.Required()),
			)),
		},
		// `map | map | null`: FlattenDisjunctions keeps one "Map" branch only
		"maps collapsed by the flattening, with a null branch": {
			ast.NewObject("test", "Labels", ast.NewDisjunction([]ast.Type{
				ast.NewMap(ast.String(), stringOrBool()),
				ast.NewMap(ast.String(), ast.NewScalar(ast.KindInt64)),
				ast.Null(),
			})),
		},
		// control: an ordinary nested union
		"array of unions in a union branch": {
			ast.NewObject("test", "Nested", ast.NewDisjunction([]ast.Type{
				ast.NewArray(stringOrBool()),
				ast.String(),
			})),
		},
	}
}

func TestGovcReplay(t *testing.T) {
	chains := map[string]func() Passes{
		"go":   seedC06cGoChain,
		"java": seedC06cJavaChain,
	}

	for chainName, chain := range chains {
		for inputName, objects := range seedC06cInputs() {
			t.Run(chainName+"/"+inputName, func(t *testing.T) {
				req := require.New(t)

				schema := ast.NewSchema("test", ast.SchemaMeta{})
				schema.AddObjects(objects...)

				processed, err := chain().Process(ast.Schemas{schema})
				req.NoError(err)

				req.Empty(seedC06cUnionsIn(processed), "unions are left in the IR after the %s chain", chainName)
			})
		}
	}
}
