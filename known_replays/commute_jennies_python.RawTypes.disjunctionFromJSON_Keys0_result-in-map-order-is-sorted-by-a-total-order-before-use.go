// pkg: internal/jennies/python
package python

import (
	"testing"

	"github.com/grafana/cog/internal/ast"
	"github.com/grafana/cog/internal/jennies/common"
	"github.com/grafana/cog/internal/languages"
	"github.com/stretchr/testify/require"
)

// Generating the Python types for the same schema must always give the same
// bytes (C03), including when several discriminator values of a disjunction
// refer to the same branch (`cat` and `kitten` → `Cat`), which is something
// that an explicit OpenAPI/JSONSchema discriminator mapping allows.
func TestGovcReplay(t *testing.T) {
	req := require.New(t)

	newSchema := func() *ast.Schema {
		schema := ast.NewSchema("pets", ast.SchemaMeta{})

		schema.AddObject(ast.NewObject("pets", "Cat", ast.NewStruct(
			ast.NewStructField("kind", ast.String(), ast.Required()),
			ast.NewStructField("indoor", ast.String(), ast.Required()),
		)))
		schema.AddObject(ast.NewObject("pets", "Dog", ast.NewStruct(
			ast.NewStructField("kind", ast.String(ast.Value("dog")), ast.Required()),
			ast.NewStructField("breed", ast.String(), ast.Required()),
		)))
		schema.AddObject(ast.NewObject("pets", "Owner", ast.NewStruct(
			ast.NewStructField("name", ast.String(), ast.Required()),
			ast.NewStructField("pet", ast.NewDisjunction(
				ast.Types{
					ast.NewRef("pets", "Cat"),
					ast.NewRef("pets", "Dog"),
				},
				ast.Discriminator("kind", map[string]string{
					"cat":    "Cat",
					"kitten": "Cat",
					"dog":    "Dog",
				}),
			), ast.Required()),
		)))

		return schema
	}

	generate := func() string {
		config := Config{GenerateJSONMarshaller: true}
		jenny := RawTypes{
			config:          config,
			tmpl:            initTemplates(common.NewAPIReferenceCollector(), []string{}),
			apiRefCollector: common.NewAPIReferenceCollector(),
		}

		schemas, err := New(config).CompilerPasses().Process(ast.Schemas{newSchema()})
		req.NoError(err)

		files, err := jenny.Generate(languages.Context{Schemas: schemas})
		req.NoError(err)
		req.Len(files, 1)

		return string(files[0].Data)
	}

	reference := generate()

	// sanity check: the decoding map we're interested in is actually generated.
	req.Contains(reference, `"kitten": Cat`)
	req.Contains(reference, `"cat": Cat`)
	req.Contains(reference, `"dog": Dog`)

	for i := 0; i < 100; i++ {
		req.Equal(reference, generate(), "run #%d generated a different output for the same input", i+1)
	}
}
