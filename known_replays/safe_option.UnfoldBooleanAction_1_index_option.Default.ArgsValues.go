// pkg: internal/veneers/rewrite
package rewrite

import (
	"testing"

	"github.com/grafana/cog/internal/ast"
	"github.com/grafana/cog/internal/veneers/option"
)

// C17, quantified over "all sequences of builder and option rules (common then language-specific)".
//
// unfold_boolean marks the option that corresponds to the default value with an *empty*
// `&ast.OptionDefault{}` (no ArgsValues), keeps the boolean path and - as is usual, see the
// TrueAs of the documentation example - may keep the original name for the "true" option.
// Any later unfold_boolean selecting that option (here: the same rule present in the common and in
// the language-specific veneers) reads `option.Default.ArgsValues[0]` unchecked and panics.
func TestGovcReplay(t *testing.T) {
	schema := ast.NewSchema("dash", ast.SchemaMeta{})
	schema.AddObject(ast.NewObject("dash", "Dashboard", ast.NewStruct(
		ast.NewStructField("editable", ast.Bool(ast.Default(true))),
	)))
	schemas := ast.Schemas{schema}

	unfold := option.UnfoldBoolean(
		option.ByName("dash", "Dashboard", "editable"),
		option.BooleanUnfold{OptionTrue: "editable", OptionFalse: "readonly"},
	)

	rewriter := NewRewrite([]LanguageRules{
		{Language: AllLanguages, OptionRules: []option.RewriteRule{unfold}},
		{Language: "go", OptionRules: []option.RewriteRule{unfold}},
	}, Config{})

	var result []ast.Builder
	var err error
	panicked := func() (recovered any) {
		defer func() { recovered = recover() }()
		result, err = rewriter.ApplyTo(schemas, (&ast.BuilderGenerator{}).FromAST(schemas), "go")
		return nil
	}()

	if panicked != nil {
		t.Fatalf("ApplyTo panicked instead of returning builders or an error: %v", panicked)
	}
	if err != nil {
		t.Fatal(err)
	}
	_ = result
}
