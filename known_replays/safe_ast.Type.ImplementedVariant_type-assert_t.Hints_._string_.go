// pkg: internal/ast
package ast

import "testing"

// known finding C04: Type.ImplementedVariant asserts that the implements_variant hint is a string; a
// hint_object transformation (or a CUE attribute) that sets it to a non-string value makes every
// later caller panic.
func TestGovcReplay(t *testing.T) {
	defer func() {
		if r := recover(); r != nil {
			t.Fatalf("ImplementedVariant panicked on a non-string hint: %v", r)
		}
	}()
	typ := NewStruct()
	typ.Hints[HintImplementsVariant] = 5
	_ = typ.ImplementedVariant()
}
