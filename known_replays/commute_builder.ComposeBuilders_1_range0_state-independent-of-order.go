// pkg: internal/veneers/builder
package builder

import (
	"strings"
	"testing"

	"github.com/grafana/cog/internal/ast"
)

// compose_builders with builders of three panel types: the composed builders come out in map order
func TestGovcReplay(t *testing.T) {
	panel := ast.NewObject("dashboard", "Panel", ast.NewStruct(
		ast.NewStructField("type", ast.String()),
		ast.NewStructField("options", ast.Any()),
	))
	dash := ast.NewSchema("dashboard", ast.SchemaMeta{})
	dash.AddObject(panel)
	schemas := ast.Schemas{dash}
	builders := ast.Builders{{Package: "dashboard", Name: "Panel", For: panel}}
	for _, pt := range []string{"timeseries", "table", "gauge"} {
		s := ast.NewSchema(pt, ast.SchemaMeta{Identifier: pt})
		o := ast.NewObject(pt, "Options", ast.NewStruct(ast.NewStructField("x", ast.String())))
		s.AddObject(o)
		schemas = append(schemas, s)
		builders = append(builders, ast.Builder{Package: pt, Name: "Options", For: o})
	}
	sel := func(_ ast.Schemas, b ast.Builder) bool { return b.Package != "dashboard" }
	cfg := CompositionConfig{SourceBuilderName: "dashboard.Panel", PluginDiscriminatorField: "type", CompositionMap: map[string]string{"Options": "options"}}
	seen := map[string]bool{}
	for i := 0; i < 200; i++ {
		in := make(ast.Builders, len(builders))
		for k, b := range builders {
			in[k] = b.DeepCopy()
		}
		out, err := ComposeBuilders(sel, cfg)(schemas, in)
		if err != nil {
			t.Fatal(err)
		}
		var order []string
		for _, b := range out {
			order = append(order, b.Package+"."+b.Name)
		}
		seen[strings.Join(order, " ")] = true
	}
	if len(seen) != 1 {
		t.Fatalf("the same rule on the same builders gave %d different orders: %v", len(seen), seen)
	}
}
