// pkg: internal/ast/compiler
package compiler_test

import (
	"fmt"
	"testing"

	"github.com/grafana/cog/internal/ast"
	"github.com/grafana/cog/internal/jennies/python"
	"github.com/grafana/cog/internal/testutils"
)

func nullUnions(t ast.Type, path string, out *[]string) {
	switch {
	case t.IsDisjunction():
		if len(t.Disjunction.Branches) == 2 && t.Disjunction.Branches.HasNullType() {
			*out = append(*out, path)
		}
		for i, b := range t.Disjunction.Branches {
			nullUnions(b, fmt.Sprintf("%s|%d", path, i), out)
		}
	case t.IsArray():
		nullUnions(t.Array.ValueType, path+"[]", out)
	case t.IsMap():
		nullUnions(t.Map.ValueType, path+"{}", out)
	case t.IsStruct():
		for _, f := range t.Struct.Fields {
			nullUnions(f.Type, path+"."+f.Name, out)
		}
	}
}

func TestGovcNestedNullUnionSurvivesPythonChain(t *testing.T) {
	schema := &ast.Schema{Package: "pkg", Objects: testutils.ObjectsMap(
		ast.NewObject("pkg", "A", ast.NewStruct(ast.NewStructField("a", ast.String(), ast.Required()))),
		ast.NewObject("pkg", "C", ast.NewStruct(ast.NewStructField("c", ast.String(), ast.Required()))),
		ast.NewObject("pkg", "X", ast.NewStruct(ast.NewStructField("v", ast.NewDisjunction([]ast.Type{
			ast.NewArray(ast.NewDisjunction([]ast.Type{ast.NewRef("pkg", "A"), ast.Null()})),
			ast.NewRef("pkg", "C"),
			ast.String(),
		}), ast.Required()))),
	)}
	out, err := python.New(python.Config{}).CompilerPasses().Process(ast.Schemas{schema})
	if err != nil {
		t.Fatal(err)
	}
	var found []string
	for _, s := range out {
		s.Objects.Iterate(func(name string, o ast.Object) { nullUnions(o.Type, name, &found) })
	}
	if len(found) > 0 {
		t.Fatalf("two-branch T|null unions remain after the Python chain: %v", found)
	}
}
