// pkg: internal/jennies/golang
package golang

import (
	"strings"
	"testing"

	"github.com/grafana/cog/internal/ast"
	"github.com/grafana/cog/internal/jsonschema"
)

// C06: after Go's chain of passes, every non-required field is nullable.
// NotRequiredFieldAsNullableType marks the *type* of the optional field as nullable early in the chain;
// the last pass, DisjunctionToType, replaces a union whose branches all resolve to the same scalar kind
// (`"auto" | string`, `string(format a) | string(format b)`, ...) by a brand new scalar built with
// ast.NewScalar(kind, Default(...)): the Nullable flag of the union it replaces is dropped.
func TestGovcReplay(t *testing.T) {
	const input = `{
  "$schema": "http://json-schema.org/draft-07/schema#",
  "type": "object",
  "required": ["id"],
  "properties": {
    "id": {"type": "string"},
    "name": {"type": "string"},
    "width": {"anyOf": [{"const": "auto"}, {"type": "string"}]}
  }
}`

	schema, err := jsonschema.GenerateAST(strings.NewReader(input), jsonschema.Config{Package: "column"})
	if err != nil {
		t.Fatalf("could not parse the schema: %s", err)
	}

	processed, err := New(Config{}).CompilerPasses().Process(ast.Schemas{schema})
	if err != nil {
		t.Fatalf("Go compiler passes failed: %s", err)
	}

	for _, processedSchema := range processed {
		processedSchema.Objects.Iterate(func(_ string, object ast.Object) {
			if !object.Type.IsStruct() {
				return
			}

			for _, field := range object.Type.Struct.Fields {
				if field.Type.IsDisjunction() {
					t.Errorf("%s.%s: a union remains", object.Name, field.Name)
				}

				if !field.Required && !field.Type.Nullable {
					t.Errorf("%s.%s is not required but its type (%s) is not nullable; passes trail: %v", object.Name, field.Name, field.Type.Kind, field.Type.PassesTrail)
				}
			}
		})
	}
}
