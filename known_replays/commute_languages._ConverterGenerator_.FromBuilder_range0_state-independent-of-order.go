// pkg: internal/languages
package languages

import (
	"testing"

	"github.com/grafana/cog/internal/ast"
)

// a builder with options that append one branch of a disjunction to TWO different lists: the converter's
// mappings for those lists come out in map iteration order
func TestGovcReplay(t *testing.T) {
	union := ast.NewStruct(ast.NewStructField("String", ast.String()), ast.NewStructField("Int64", ast.NewScalar(ast.KindInt64)))
	union.Hints[ast.HintDisjunctionOfScalars] = ast.DisjunctionType{}
	schema := ast.NewSchema("pkg", ast.SchemaMeta{})
	schema.AddObject(ast.NewObject("pkg", "StringOrInt64", union))
	obj := ast.NewObject("pkg", "Foo", ast.NewStruct(
		ast.NewStructField("as", ast.NewArray(ast.NewRef("pkg", "StringOrInt64"))),
		ast.NewStructField("bs", ast.NewArray(ast.NewRef("pkg", "StringOrInt64"))),
		ast.NewStructField("cs", ast.NewArray(ast.NewRef("pkg", "StringOrInt64"))),
	))
	schema.AddObject(obj)
	mkOpt := func(name string, field string) ast.Option {
		arg := ast.Argument{Name: "v", Type: ast.String()}
		return ast.Option{
			Name: name,
			Args: []ast.Argument{arg},
			Assignments: []ast.Assignment{{
				Path:   ast.Path{{Identifier: field, Type: ast.NewArray(ast.NewRef("pkg", "StringOrInt64"))}},
				Method: ast.AppendAssignment,
				Value: ast.AssignmentValue{Envelope: &ast.AssignmentEnvelope{
					Type:   ast.NewRef("pkg", "StringOrInt64"),
					Values: []ast.EnvelopeFieldValue{{Path: ast.Path{{Identifier: "String", Type: ast.String()}}, Value: ast.AssignmentValue{Argument: &arg}}},
				}},
			}},
		}
	}
	builder := ast.Builder{Package: "pkg", Name: "Foo", For: obj, Options: []ast.Option{mkOpt("a", "as"), mkOpt("b", "bs"), mkOpt("c", "cs")}}
	context := Context{Schemas: ast.Schemas{schema}, Builders: ast.Builders{builder}}
	seen := map[string]bool{}
	for i := 0; i < 200; i++ {
		conv := NewConverterGenerator(NullableConfig{}).FromBuilder(context, builder)
		order := ""
		for _, m := range conv.Mappings {
			order += m.RepeatFor.String() + " "
		}
		seen[order] = true
	}
	if len(seen) != 1 {
		t.Fatalf("the same builder was converted in %d different ways: %v", len(seen), seen)
	}
}
