// pkg: internal/ast/compiler
package compiler

import (
	"testing"

	"github.com/grafana/cog/internal/ast"
	"github.com/grafana/cog/internal/testutils"
	"github.com/stretchr/testify/require"
)

// Renaming an object of one package must leave every discriminator mapping
// target (and every reference) of the other packages resolving.
func TestGovcReplay(t *testing.T) {
	req := require.New(t)

	newSchemas := func() ast.Schemas {
		return ast.Schemas{
			&ast.Schema{
				Package: "dashboard",
				Objects: testutils.ObjectsMap(
					ast.NewObject("dashboard", "Panel", ast.NewStruct(
						ast.NewStructField("title", ast.String()),
					)),
				),
			},
			&ast.Schema{
				Package: "library",
				Objects: testutils.ObjectsMap(
					ast.NewObject("library", "Panel", ast.NewStruct(
						ast.NewStructField("kind", ast.String(ast.Value("panel"))),
					)),
					ast.NewObject("library", "Row", ast.NewStruct(
						ast.NewStructField("kind", ast.String(ast.Value("row"))),
					)),
					ast.NewObject("library", "Element", ast.NewDisjunction(
						ast.Types{
							ast.NewRef("library", "Panel"),
							ast.NewRef("library", "Row"),
						},
						ast.Discriminator("kind", map[string]string{
							"panel": "Panel",
							"row":   "Row",
						}),
					)),
				),
			},
		}
	}

	assertEverythingResolves := func(schemas ast.Schemas) {
		for _, schema := range schemas {
			schema.Objects.Iterate(func(_ string, object ast.Object) {
				if !object.Type.IsDisjunction() {
					return
				}

				disjunction := object.Type.AsDisjunction()

				for _, branch := range disjunction.Branches {
					if !branch.IsRef() {
						continue
					}

					_, found := schemas.LocateObject(branch.AsRef().ReferredPkg, branch.AsRef().ReferredType)
					req.True(found, "branch %s of %s does not resolve", branch.AsRef().String(), object.SelfRef.String())
				}

				for value, target := range disjunction.DiscriminatorMapping {
					_, found := schemas.LocateObject(schema.Package, target)
					req.True(found, "discriminator mapping %q → %q of %s does not resolve", value, target, object.SelfRef.String())
				}
			})
		}
	}

	// sanity check: the input is well-formed
	assertEverythingResolves(newSchemas())

	pass := &RenameObject{
		From: ObjectReference{Package: "dashboard", Object: "Panel"},
		To:   "DashboardPanel",
	}

	processed, err := pass.Process(newSchemas())
	req.NoError(err)

	_, found := ast.Schemas(processed).LocateObject("dashboard", "DashboardPanel")
	req.True(found)
	_, found = ast.Schemas(processed).LocateObject("library", "Panel")
	req.True(found, "library.Panel was not supposed to be renamed")

	assertEverythingResolves(processed)
}
