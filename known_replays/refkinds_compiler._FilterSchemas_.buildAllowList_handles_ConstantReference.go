// pkg: internal/ast/compiler
package compiler

import (
	"testing"

	"github.com/grafana/cog/internal/ast"
	"github.com/grafana/cog/internal/testutils"
)

func TestGovcFilterConstantRef(t *testing.T) {
	schema := &ast.Schema{Package: "pkg", Objects: testutils.ObjectsMap(
		ast.NewObject("pkg", "Kind", ast.NewEnum([]ast.EnumValue{{Type: ast.String(), Name: "A", Value: "a"}})),
		ast.NewObject("pkg", "Root", ast.NewStruct(ast.NewStructField("kind", ast.NewConstantReferenceType("pkg", "Kind", "a")))),
		ast.NewObject("pkg", "Unrelated", ast.String()),
	)}
	pass := &FilterSchemas{AllowedObjects: []ObjectReference{{Package: "pkg", Object: "Root"}}}
	out, err := pass.Process(ast.Schemas{schema})
	if err != nil {
		t.Fatal(err)
	}
	if _, found := out[0].LocateObject("Kind"); !found {
		names := []string{}
		out[0].Objects.Iterate(func(k string, _ ast.Object) { names = append(names, k) })
		t.Fatalf("allowed_objects [pkg.Root] dropped pkg.Kind although Root.kind is a constant reference to it; kept: %v", names)
	}
}
