// pkg: internal/veneers/option
package option

import (
	"encoding/json"
	"testing"

	"github.com/grafana/cog/internal/ast"
	"github.com/grafana/cog/internal/testutils"
	"github.com/stretchr/testify/require"
)

// Two objects refer to the same `Time` struct: `Dashboard.time` declares a
// default value for it, `Panel.timeOverride` doesn't.
// Applying struct_fields_as_arguments on `Dashboard.time` must leave the builders
// that are not selected by the rule (`Time`, `Panel`) untouched, and must not
// influence what a later struct_fields_as_arguments on `Panel.timeOverride` yields.
func TestGovcReplay(t *testing.T) {
	req := require.New(t)

	timeObject := ast.NewObject("pkg", "Time", ast.NewStruct(
		ast.NewStructField("from", ast.String()),
		ast.NewStructField("to", ast.String()),
	))
	dashboardObject := ast.NewObject("pkg", "Dashboard", ast.NewStruct(
		ast.NewStructField("time", ast.NewRef("pkg", "Time", ast.Default(map[string]any{
			"from": "now-6h",
			"to":   "now",
		}))),
	))
	panelObject := ast.NewObject("pkg", "Panel", ast.NewStruct(
		ast.NewStructField("timeOverride", ast.NewRef("pkg", "Time")),
	))

	schemas := ast.Schemas{
		&ast.Schema{
			Package: "pkg",
			Objects: testutils.ObjectsMap(timeObject, dashboardObject, panelObject),
		},
	}

	builders := ast.Builders((&ast.BuilderGenerator{}).FromAST(schemas))

	timeBuilder, found := builders.LocateByObject("pkg", "Time")
	req.True(found)
	dashboardBuilder, found := builders.LocateByObject("pkg", "Dashboard")
	req.True(found)
	panelBuilder, found := builders.LocateByObject("pkg", "Panel")
	req.True(found)

	timeBuilderBefore := seedC17eJSON(t, timeBuilder)
	panelBuilderBefore := seedC17eJSON(t, panelBuilder)

	// Reference result: what the rule yields on Panel.timeOverride when nothing
	// else has been rewritten yet (computed on an independent copy of the world).
	referenceSchemas := schemas.DeepCopy()
	referenceBuilders := ast.Builders((&ast.BuilderGenerator{}).FromAST(referenceSchemas))
	referencePanelBuilder, found := referenceBuilders.LocateByObject("pkg", "Panel")
	req.True(found)
	referencePanelOpts := StructFieldsAsArgumentsAction()(referenceSchemas, referencePanelBuilder, referencePanelBuilder.Options[0])
	referencePanelOptsJSON := seedC17eJSON(t, referencePanelOpts)

	// Rule 1: struct_fields_as_arguments on Dashboard.time
	timeOpt, found := dashboardBuilder.OptionByName("time")
	req.True(found)
	dashboardOpts := StructFieldsAsArgumentsAction()(schemas, dashboardBuilder, timeOpt)
	req.Len(dashboardOpts, 1)
	req.Len(dashboardOpts[0].Args, 2)
	req.Equal("now-6h", dashboardOpts[0].Args[0].Type.Default)
	req.Equal("now", dashboardOpts[0].Args[1].Type.Default)

	// Frame condition: builders not selected by the rule are unchanged.
	req.JSONEq(timeBuilderBefore, seedC17eJSON(t, timeBuilder), "the Time builder was not selected: it must be unchanged")
	req.JSONEq(panelBuilderBefore, seedC17eJSON(t, panelBuilder), "the Panel builder was not selected: it must be unchanged")

	// Rule 2: struct_fields_as_arguments on Panel.timeOverride. The outcome can not
	// depend on rule 1 having run before.
	overrideOpt, found := panelBuilder.OptionByName("timeOverride")
	req.True(found)
	panelOpts := StructFieldsAsArgumentsAction()(schemas, panelBuilder, overrideOpt)
	req.Len(panelOpts, 1)
	req.JSONEq(referencePanelOptsJSON, seedC17eJSON(t, panelOpts), "Panel.timeOverride has no default: its arguments must not inherit the ones of Dashboard.time")
	for _, arg := range panelOpts[0].Args {
		req.Nil(arg.Type.Default, "argument %s must not have a default", arg.Name)
	}
	for _, assignment := range panelOpts[0].Assignments {
		req.Nil(assignment.Path.Last().Type.Default, "path %s must not carry a default", assignment.Path.String())
	}
}

func seedC17eJSON(t *testing.T, input any) string {
	t.Helper()

	payload, err := json.Marshal(input)
	require.NoError(t, err)

	return string(payload)
}
