// pkg: internal/codegen
package codegen

import "testing"

// known finding C03: Pipeline.interpolate applies strings.ReplaceAll once per parameter in map
// iteration order; when the value of one parameter mentions another parameter the result depends on
// that order.
func TestGovcReplay(t *testing.T) {
	pipeline := &Pipeline{Parameters: map[string]string{"a": "%b%", "b": "x", "c": "%a%"}}
	seen := map[string]bool{}
	for i := 0; i < 400; i++ {
		seen[pipeline.interpolate("%c%/%a%")] = true
	}
	if len(seen) > 1 {
		t.Fatalf("interpolate(%q) gave %d different results in 400 runs: %v", "%c%/%a%", len(seen), seen)
	}
}
