// pkg: internal/codegen
package codegen

import (
	"context"
	"os"
	"path/filepath"
	"testing"

	"github.com/grafana/cog/internal/ast"
)

// C05: after loading an input, the entry point of a schema names an object that exists in it, and
// `allowed_objects` keeps exactly the listed objects plus what they reference.
// The JSON Schema parser always records the root object as the entry point (EntryPoint and EntryPointType);
// FilterSchemas then removes the objects that are not allowed but never looks at the entry point, so
// restricting the input to anything that does not reach the root leaves both dangling.
func TestGovcReplay(t *testing.T) {
	const input = `{
  "$schema": "http://json-schema.org/draft-07/schema#",
  "$ref": "#/definitions/Dashboard",
  "definitions": {
    "Dashboard": {
      "type": "object",
      "properties": {
        "title": {"type": "string"},
        "panels": {"type": "array", "items": {"$ref": "#/definitions/Panel"}}
      }
    },
    "Panel": {
      "type": "object",
      "properties": {"title": {"type": "string"}}
    }
  }
}`

	schemaPath := filepath.Join(t.TempDir(), "dashboard.json")
	if err := os.WriteFile(schemaPath, []byte(input), 0o600); err != nil {
		t.Fatal(err)
	}

	loadWith := func(allowedObjects []string) {
		t.Helper()

		jsonschemaInput := &Input{JSONSchema: &JSONSchemaInput{
			InputBase: InputBase{AllowedObjects: allowedObjects},
			Path:      schemaPath,
			Package:   "dashboard",
		}}

		schemas, err := jsonschemaInput.LoadSchemas(context.Background())
		if err != nil {
			t.Fatalf("could not load schemas: %s", err)
		}

		for _, schema := range schemas {
			var objectNames []string
			schema.Objects.Iterate(func(name string, _ ast.Object) {
				objectNames = append(objectNames, name)
			})

			if schema.EntryPoint != "" {
				if _, found := schema.LocateObject(schema.EntryPoint); !found {
					t.Errorf("allowed_objects=%v: entry point %q names no object of package %q (objects: %v)", allowedObjects, schema.EntryPoint, schema.Package, objectNames)
				}
			}

			if schema.EntryPointType.IsRef() {
				if _, found := schemas.LocateObjectByRef(schema.EntryPointType.AsRef()); !found {
					t.Errorf("allowed_objects=%v: entry point type refers to %s which does not exist", allowedObjects, schema.EntryPointType.AsRef().String())
				}
			}
		}
	}

	// sanity: without a filter everything resolves
	loadWith(nil)
	// only Panel is wanted: Dashboard (the root, hence the entry point) is filtered out
	loadWith([]string{"Panel"})
}
