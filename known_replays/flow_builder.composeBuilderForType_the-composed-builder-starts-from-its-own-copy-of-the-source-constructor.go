// pkg: internal/veneers/builder
package builder

import (
	"testing"

	"github.com/grafana/cog/internal/ast"
)

// compose_builders when the source builder's constructor assignments have spare capacity (three appended
// by earlier rules: len 3, cap 4): every composed builder appends its plugin type into the same slot
func TestGovcReplay(t *testing.T) {
	panel := ast.NewObject("dashboard", "Panel", ast.NewStruct(
		ast.NewStructField("type", ast.String()),
		ast.NewStructField("options", ast.Any()),
		ast.NewStructField("a", ast.String()), ast.NewStructField("b", ast.String()), ast.NewStructField("c", ast.String()),
	))
	dash := ast.NewSchema("dashboard", ast.SchemaMeta{})
	dash.AddObject(panel)
	schemas := ast.Schemas{dash}
	source := ast.Builder{Package: "dashboard", Name: "Panel", For: panel}
	for _, f := range []string{"a", "b", "c"} {
		source.Constructor.Assignments = append(source.Constructor.Assignments, ast.ConstantAssignment(ast.Path{{Identifier: f, Type: ast.String()}}, "x"))
	}
	builders := ast.Builders{source}
	for _, pt := range []string{"timeseries", "table"} {
		s := ast.NewSchema(pt, ast.SchemaMeta{Identifier: pt})
		o := ast.NewObject(pt, "Options", ast.NewStruct(ast.NewStructField("x", ast.String())))
		s.AddObject(o)
		schemas = append(schemas, s)
		builders = append(builders, ast.Builder{Package: pt, Name: "Options", For: o})
	}
	sel := func(_ ast.Schemas, b ast.Builder) bool { return b.Package != "dashboard" }
	cfg := CompositionConfig{SourceBuilderName: "dashboard.Panel", PluginDiscriminatorField: "type", CompositionMap: map[string]string{"Options": "options"}}
	out, err := ComposeBuilders(sel, cfg)(schemas, builders)
	if err != nil {
		t.Fatal(err)
	}
	for _, b := range out {
		if b.Package == "dashboard" {
			continue
		}
		last := b.Constructor.Assignments[len(b.Constructor.Assignments)-1]
		if last.Value.Constant != b.Package {
			t.Errorf("the composed builder of %s sets the plugin type to %v", b.Package, last.Value.Constant)
		}
	}
}
