// pkg: internal/veneers/option
package option

import (
	"testing"

	"github.com/grafana/cog/internal/ast"
	"github.com/grafana/cog/internal/veneers"
	"github.com/stretchr/testify/require"
)

// Sequence: add_assignment (re-using the option's argument for a second
// assignment) followed by rename_arguments.
// Every argument used by an assignment must still be declared by the option.
func TestGovcReplay(t *testing.T) {
	req := require.New(t)

	panelType := ast.NewStruct(
		ast.NewStructField("title", ast.String()),
		ast.NewStructField("description", ast.String()),
	)
	panel := ast.NewObject("test_pkg", "Panel", panelType)

	titleArg := ast.Argument{Name: "title", Type: ast.String()}
	titleOpt := ast.Option{
		Name: "title",
		Args: []ast.Argument{titleArg},
		Assignments: []ast.Assignment{
			ast.ArgumentAssignment(ast.Path{{Identifier: "title", Type: ast.String()}}, titleArg),
		},
	}
	builder := ast.Builder{
		Package: "test_pkg",
		Name:    "Panel",
		For:     panel,
		Options: []ast.Option{titleOpt},
	}

	// step 1: title(title) also assigns the description
	opts := AddAssignmentAction(veneers.Assignment{
		Path:   "description",
		Method: ast.DirectAssignment,
		Value: veneers.AssignmentValue{
			Argument: &ast.Argument{Name: "title", Type: ast.String()},
		},
	})(ast.Schemas{}, builder, titleOpt)
	req.Len(opts, 1)
	req.Len(opts[0].Assignments, 2)

	// step 2: rename the argument
	opts = RenameArgumentsAction([]string{"text"})(ast.Schemas{}, builder, opts[0])
	req.Len(opts, 1)

	renamed := opts[0]
	req.Len(renamed.Args, 1)
	req.Equal("text", renamed.Args[0].Name)
	req.Len(renamed.Assignments, 2)

	// the targets are untouched
	req.Equal("title", renamed.Assignments[0].Path.String())
	req.Equal("description", renamed.Assignments[1].Path.String())

	// and every argument used by an assignment is declared by the option
	declared := map[string]bool{}
	for _, arg := range renamed.Args {
		declared[arg.Name] = true
	}
	for _, assignment := range renamed.Assignments {
		req.NotNil(assignment.Value.Argument)
		req.Truef(
			declared[assignment.Value.Argument.Name],
			"assignment to '%s' uses argument '%s', which is not declared by option '%s'",
			assignment.Path.String(), assignment.Value.Argument.Name, renamed.Name,
		)
	}
}
