// pkg: internal/openapi
package openapi

import (
	"context"
	"testing"

	"github.com/getkin/kin-openapi/openapi3"
	"github.com/stretchr/testify/require"
)

// The default declared on an enum has to designate one of its members: the
// jennies look the member up with `member.Value == type.Default` (a comparison
// of `any` values, hence sensitive to their dynamic Go type) and silently fall
// back on the first member when nothing matches.
func TestGovcReplay(t *testing.T) {
	req := require.New(t)

	doc := `{
  "openapi": "3.0.0",
  "info": {"title": "seed", "version": "0.0"},
  "paths": {},
  "components": {
    "schemas": {
      "Priority": {
        "type": "integer",
        "enum": [1, 2, 3],
        "default": 2
      }
    }
  }
}`

	oapi, err := openapi3.NewLoader().LoadFromData([]byte(doc))
	req.NoError(err)

	schemaAst, err := GenerateAST(context.Background(), oapi, Config{Package: "seed"})
	req.NoError(err)

	priority := schemaAst.Objects.Get("Priority").Type
	req.True(priority.IsEnum())
	req.NotNil(priority.Default, "the declared default was dropped")

	designated := ""
	for _, member := range priority.AsEnum().Values {
		// same lookup as in internal/jennies/golang/rawtypes.go and internal/jennies/python/tools.go
		if member.Value == priority.Default {
			designated = member.Name
			break
		}
	}

	req.Equal("2", designated, "default %#v (%T) designates no member of the enum (members are %T)",
		priority.Default, priority.Default, priority.AsEnum().Values[0].Value)
}
