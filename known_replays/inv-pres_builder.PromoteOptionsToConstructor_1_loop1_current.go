// pkg: internal/veneers/builder
package builder

import (
	"testing"

	"github.com/grafana/cog/internal/ast"
	"github.com/grafana/cog/internal/veneers/option"
)

// promote_options_to_constructor, then rename_arguments on the promoted option: the constructor's
// assignment follows the rename (it shares the argument record with the option), the constructor's
// argument list does not
func TestGovcReplay(t *testing.T) {
	obj := ast.NewObject("pkg", "Foo", ast.NewStruct(ast.NewStructField("title", ast.String())))
	arg := ast.Argument{Name: "title", Type: ast.String()}
	builders := ast.Builders{{
		Package: "pkg", Name: "Foo", For: obj,
		Options: []ast.Option{{
			Name: "title", Args: []ast.Argument{arg},
			Assignments: []ast.Assignment{ast.ArgumentAssignment(ast.Path{{Identifier: "title", Type: ast.String()}}, arg)},
		}},
	}}
	builders, err := PromoteOptionsToConstructor(EveryBuilder(), []string{"title"})(ast.Schemas{}, builders)
	if err != nil {
		t.Fatal(err)
	}
	// a later option rule renames the option's argument
	newOpts := option.RenameArgumentsAction([]string{"newTitle"})(ast.Schemas{}, builders[0], builders[0].Options[0])
	builders[0].Options = newOpts
	declared := map[string]bool{}
	for _, a := range builders[0].Constructor.Args {
		declared[a.Name] = true
	}
	for _, as := range builders[0].Constructor.Assignments {
		if as.Value.Argument != nil && !declared[as.Value.Argument.Name] {
			t.Errorf("the constructor assigns from argument %q, which it does not declare (declared: %v)", as.Value.Argument.Name, declared)
		}
	}
}
