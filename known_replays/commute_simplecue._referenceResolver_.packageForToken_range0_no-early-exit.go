// pkg: internal/simplecue
package simplecue

import (
	"testing"

	"cuelang.org/go/cue/parser"
)

// two libraries whose import paths are nested (a/b and a/b/c): a node from a file of the inner one matches
// both, and the package it is attributed to depends on map iteration order
func TestGovcReplay(t *testing.T) {
	f, err := parser.ParseFile("/libs/github.com/acme/a/b/c/types.cue", "package c\n#T: string\n")
	if err != nil {
		t.Fatal(err)
	}
	seen := map[string]bool{}
	for i := 0; i < 200; i++ {
		resolver := &referenceResolver{librariesMap: map[string]string{
			"github.com/acme/a/b":   "b",
			"github.com/acme/a/b/c": "c",
			"github.com/acme/a":     "a",
		}}
		seen[resolver.packageForToken(f.Decls[1], "default")] = true
	}
	if len(seen) != 1 {
		t.Fatalf("the same node was attributed to %d different packages: %v", len(seen), seen)
	}
}
