// pkg: internal/veneers
package veneers

import (
	"testing"

	"github.com/grafana/cog/internal/ast"
)

// add_option with an envelope value on a path whose type is not a struct (a string field)
func TestGovcReplay(t *testing.T) {
	schema := ast.NewSchema("pkg", ast.SchemaMeta{})
	schema.AddObject(ast.NewObject("pkg", "Foo", ast.NewStruct(ast.NewStructField("name", ast.String()))))
	schemas := ast.Schemas{schema}
	builders := (&ast.BuilderGenerator{}).FromAST(schemas)
	opt := Option{Name: "withX", Assignments: []Assignment{{
		Path:   "name",
		Method: ast.DirectAssignment,
		Value:  AssignmentValue{Envelope: &AssignmentEnvelope{Values: []EnvelopeFieldValue{{Field: "x", Value: AssignmentValue{Constant: 1}}}}},
	}}}
	defer func() {
		if r := recover(); r != nil {
			t.Fatalf("panic: %v", r)
		}
	}()
	_, err := opt.AsIR(schemas, builders, builders[0])
	t.Logf("err = %v", err)
}
