// pkg: internal/ast/compiler
package compiler_test

import (
	"fmt"
	"testing"

	"github.com/grafana/cog/internal/ast"
	"github.com/grafana/cog/internal/jennies/golang"
	"github.com/grafana/cog/internal/testutils"
)

func unions(t ast.Type, path string, out *[]string) {
	switch {
	case t.IsDisjunction():
		*out = append(*out, path)
		for i, b := range t.Disjunction.Branches {
			unions(b, fmt.Sprintf("%s|%d", path, i), out)
		}
	case t.IsArray():
		unions(t.Array.ValueType, path+"[]", out)
	case t.IsMap():
		unions(t.Map.ValueType, path+"{}", out)
	case t.IsStruct():
		for _, f := range t.Struct.Fields {
			unions(f.Type, path+"."+f.Name, out)
		}
	}
}

func TestGovcNestedUnionSurvivesGoChain(t *testing.T) {
	schema := &ast.Schema{Package: "pkg", Objects: testutils.ObjectsMap(
		ast.NewObject("pkg", "A", ast.NewStruct(ast.NewStructField("a", ast.String(), ast.Required()))),
		ast.NewObject("pkg", "C", ast.NewStruct(ast.NewStructField("c", ast.String(), ast.Required()))),
		ast.NewObject("pkg", "X", ast.NewStruct(ast.NewStructField("v", ast.NewDisjunction([]ast.Type{
			ast.NewArray(ast.NewDisjunction([]ast.Type{ast.NewRef("pkg", "A"), ast.Null()})),
			ast.NewRef("pkg", "C"),
		}), ast.Required()))),
	)}
	out, err := golang.New(golang.Config{}).CompilerPasses().Process(ast.Schemas{schema})
	if err != nil {
		t.Fatal(err)
	}
	var found []string
	for _, s := range out {
		s.Objects.Iterate(func(name string, o ast.Object) { unions(o.Type, name, &found) })
	}
	if len(found) > 0 {
		t.Fatalf("union types remain after the Go chain: %v", found)
	}
}
