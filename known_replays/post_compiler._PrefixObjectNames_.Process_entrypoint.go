// pkg: internal/ast/compiler
package compiler

import (
	"testing"

	"github.com/grafana/cog/internal/ast"
	"github.com/grafana/cog/internal/testutils"
)

func TestGovcPrefixEntryPoint(t *testing.T) {
	schema := &ast.Schema{Package: "pkg", EntryPoint: "Foo", EntryPointType: ast.NewRef("pkg", "Foo"), Objects: testutils.ObjectsMap(
		ast.NewObject("pkg", "Foo", ast.NewStruct(ast.NewStructField("a", ast.String()))),
	)}
	pass := &PrefixObjectNames{Prefix: "Lib"}
	out, err := pass.Process(ast.Schemas{schema})
	if err != nil {
		t.Fatal(err)
	}
	if _, found := out[0].LocateObject(out[0].EntryPoint); !found {
		t.Fatalf("entry point %q names no object after PrefixObjectNames (entry point type: %s.%s)", out[0].EntryPoint, out[0].EntryPointType.Ref.ReferredPkg, out[0].EntryPointType.Ref.ReferredType)
	}
}
