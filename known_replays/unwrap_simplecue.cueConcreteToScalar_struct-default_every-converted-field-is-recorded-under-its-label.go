// pkg: internal/simplecue
package simplecue

import (
	"testing"

	"cuelang.org/go/cue/cuecontext"
	"github.com/stretchr/testify/require"
)

// A struct default that overrides a field with an "empty" value (empty list,
// null) must keep that override in the IR: the field's own default is
// non-empty, so dropping the entry changes what the default constructor yields.
func TestGovcReplay(t *testing.T) {
	req := require.New(t)

	schema := `
package foo

#Options: {
  limit: int64 | *10
  tags: [...string] | *["prod", "eu"]
  unit: null | string | *"ms"
}

Container: {
  options: #Options | *{limit: 20, tags: [], unit: null}
}
`
	cueVal := cuecontext.New().CompileString(schema)
	req.NoError(cueVal.Err())

	schemaAst, err := GenerateAST(cueVal, Config{Package: "grafanatest"})
	req.NoError(err)

	container := schemaAst.Objects.Get("Container")
	req.True(container.Type.IsStruct())

	field, found := container.Type.Struct.FieldByName("options")
	req.True(found)
	req.True(field.Type.IsRef())

	defaults, ok := field.Type.Default.(map[string]any)
	req.True(ok, "the struct default should be a map, got %T", field.Type.Default)

	// the overrides the schema declares: limit=20, tags=[] (empty), unit=null
	req.Equal(int64(20), defaults["limit"])

	tags, hasTags := defaults["tags"]
	req.True(hasTags, "the `tags: []` override was dropped from the default: the constructor will fall back to [\"prod\", \"eu\"]")
	req.Empty(tags)

	unit, hasUnit := defaults["unit"]
	req.True(hasUnit, "the `unit: null` override was dropped from the default: the constructor will fall back to \"ms\"")
	req.Nil(unit)

	req.Len(defaults, 3)
}
