// pkg: internal/ast/compiler
package compiler

import (
	"testing"

	"github.com/grafana/cog/internal/ast"
)

// replace_reference is documented as "replaces any usage of the `From`
// reference by the one given in `To`". It builds a brand new reference type
// instead of re-targeting the existing one, so everything else the type carried
// (nullability, default value, hints, previous trail) is lost.
func TestGovcReplay(t *testing.T) {
	schema := ast.NewSchema("pkg", ast.SchemaMeta{})
	schema.AddObjects(
		ast.NewObject("pkg", "Holder", ast.NewStruct(
			// what the CUE front end produces for `mode?: #OldMode | *"auto"`
			ast.NewStructField("mode", ast.NewRef("pkg", "OldMode",
				ast.Nullable(),
				ast.Default("auto"),
				ast.Hints(ast.JenniesHints{"some_hint": "kept?"}),
			)),
		)),
	)

	passes := Passes{
		&ReplaceReference{
			From: ObjectReference{Package: "pkg", Object: "OldMode"},
			To:   ObjectReference{Package: "common", Object: "Mode"},
		},
	}

	out, err := passes.Process(ast.Schemas{schema})
	if err != nil {
		t.Fatal(err)
	}

	holder, _ := out[0].LocateObject("Holder")
	field := holder.Type.Struct.Fields[0]

	if field.Type.Ref.String() != "common.Mode" {
		t.Fatalf("reference not replaced: %s", field.Type.Ref.String())
	}

	if !field.Type.Nullable {
		t.Errorf("the replaced reference was nullable, the new one is not")
	}
	if field.Type.Default != "auto" {
		t.Errorf("the replaced reference had default %q, the new one has %v", "auto", field.Type.Default)
	}
	if field.Type.Hints["some_hint"] != "kept?" {
		t.Errorf("the replaced reference had hints, the new one has %v", field.Type.Hints)
	}
}
