// pkg: internal/ast
package ast

import (
	"testing"

	"github.com/stretchr/testify/require"
)

// Two inputs contribute to the same package: the first one only brings plain
// types, the second one brings the object that the schema is "about" (its
// entry point), like a jsonschema/kindsys input listed after a plain cue one.
func seedC07cInputs() (*Schema, *Schema) {
	types := NewSchema("dashboard", SchemaMeta{Kind: SchemaKindCore})
	types.AddObject(NewObject("dashboard", "Panel", NewStruct(
		NewStructField("title", String()),
	)))

	root := NewSchema("dashboard", SchemaMeta{Kind: SchemaKindCore})
	root.AddObject(NewObject("dashboard", "Dashboard", NewStruct(
		NewStructField("panels", NewArray(NewRef("dashboard", "Panel"))),
	)))
	root.EntryPoint = "Dashboard"
	root.EntryPointType = NewRef("dashboard", "Dashboard")

	return types, root
}

func TestGovcReplay(t *testing.T) {
	req := require.New(t)

	types, root := seedC07cInputs()

	// an unrelated package sits between the two inputs of "dashboard"
	other := NewSchema("common", SchemaMeta{})
	other.AddObject(NewObject("common", "Unit", String()))

	consolidated, err := Schemas{types, other, root}.Consolidate()
	req.NoError(err)
	req.Len(consolidated, 2)

	dashboard, found := consolidated.Locate("dashboard")
	req.True(found)

	// union of the objects...
	req.True(dashboard.HasObject("Panel"))
	req.True(dashboard.HasObject("Dashboard"))
	req.Equal(2, dashboard.Objects.Len())

	// ... and the entry point defined by the second input must not be silently dropped.
	req.Equal("Dashboard", dashboard.EntryPoint, "entry point defined by the second input was dropped")
	req.Equal(NewRef("dashboard", "Dashboard"), dashboard.EntryPointType)

	// the order in which the inputs of a package are given does not change what the package defines.
	typesAgain, rootAgain := seedC07cInputs()
	reordered, err := Schemas{rootAgain, typesAgain}.Consolidate()
	req.NoError(err)

	reorderedDashboard, found := reordered.Locate("dashboard")
	req.True(found)
	req.Equal(reorderedDashboard.EntryPoint, dashboard.EntryPoint)
	req.Equal(reorderedDashboard.EntryPointType, dashboard.EntryPointType)
}
