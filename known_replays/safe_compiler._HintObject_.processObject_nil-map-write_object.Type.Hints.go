// pkg: internal/ast/compiler
package compiler

import (
	"testing"

	"github.com/grafana/cog/internal/ast"
	"gopkg.in/yaml.v3"
)

// hint_object writes into object.Type.Hints without checking that the map
// exists. Types that come from the schemas always have one (DeepCopy creates
// it), but types that come from the transformation file itself (the `as:` of
// retype_object / add_object, decoded by yaml into a bare ast.Type) do not.
//
//	passes:
//	  - retype_object: { object: pkg.Thing, as: { kind: scalar, scalar: { scalar_kind: string } } }
//	  - hint_object:   { object: pkg.Thing, hints: { skip_variant_plugin_registration: true } }
//
// panics with "assignment to entry in nil map".
func TestGovcReplay(t *testing.T) {
	// decoded exactly the way internal/yaml.RetypeObject / AddObject decode their `as` field
	config := struct {
		As ast.Type `yaml:"as"`
	}{}
	err := yaml.Unmarshal([]byte("as:\n  kind: scalar\n  scalar:\n    scalar_kind: string\n"), &config)
	if err != nil {
		t.Fatal(err)
	}
	if config.As.Kind != ast.KindScalar || config.As.Scalar == nil || config.As.Scalar.ScalarKind != ast.KindString {
		t.Fatalf("yaml type not decoded as expected: %#v", config.As)
	}

	for name, first := range map[string]Pass{
		"retype_object": &RetypeObject{Object: ObjectReference{Package: "pkg", Object: "Thing"}, As: config.As},
		"add_object":    &AddObject{Object: ObjectReference{Package: "pkg", Object: "Thing"}, As: config.As},
	} {
		t.Run(name, func(t *testing.T) {
			schema := ast.NewSchema("pkg", ast.SchemaMeta{})
			if name == "retype_object" {
				schema.AddObject(ast.NewObject("pkg", "Thing", ast.NewStruct()))
			}

			passes := Passes{
				first,
				&HintObject{
					Object: ObjectReference{Package: "pkg", Object: "Thing"},
					Hints:  ast.JenniesHints{ast.HintSkipVariantPluginRegistration: true},
				},
			}

			defer func() {
				if r := recover(); r != nil {
					t.Errorf("%s followed by hint_object panicked: %v", name, r)
				}
			}()

			out, err := passes.Process(ast.Schemas{schema})
			if err != nil {
				t.Fatal(err)
			}

			thing, _ := out[0].LocateObject("Thing")
			if thing.Type.Hints[ast.HintSkipVariantPluginRegistration] != true {
				t.Errorf("hint not set: %v", thing.Type.Hints)
			}
		})
	}
}
