// pkg: internal/jennies/php
package php

import (
	"fmt"
	"strings"
	"testing"

	"github.com/grafana/cog/internal/ast"
	"github.com/grafana/cog/internal/jsonschema"
)

// C06: after PHP's chain every enum is a named object whose member names are sanitised.
// AnonymousEnumToExplicitType names the members of the enum it lifts with UpperCamelCase(name), which is
// the empty string for a member made of symbols only ("=", "<", "*", ...). The next pass in PHP's chain,
// SanitizeEnumMemberNames, then evaluates member.Name[0] on that empty name (the only guard is for the
// member whose *value* is empty): the whole chain panics with an index out of range.
func TestGovcReplay(t *testing.T) {
	const input = `{
  "$schema": "http://json-schema.org/draft-07/schema#",
  "type": "object",
  "properties": {
    "field": {"type": "string"},
    "operator": {"type": "string", "enum": ["=", "!=", "<", ">"]}
  }
}`

	schema, err := jsonschema.GenerateAST(strings.NewReader(input), jsonschema.Config{Package: "matcher"})
	if err != nil {
		t.Fatalf("could not parse the schema: %s", err)
	}

	var processed ast.Schemas
	var panicked any
	func() {
		defer func() { panicked = recover() }()

		processed, err = New(Config{}).CompilerPasses().Process(ast.Schemas{schema})
	}()

	if panicked != nil {
		t.Fatalf("PHP's compiler passes panicked: %v", panicked)
	}
	if err != nil {
		t.Fatalf("PHP's compiler passes failed: %s", err)
	}

	// had the chain survived: every enum is a named object and its members have usable, distinct names
	for _, processedSchema := range processed {
		processedSchema.Objects.Iterate(func(_ string, object ast.Object) {
			if !object.Type.IsEnum() {
				return
			}

			seen := map[string]struct{}{}
			for _, member := range object.Type.Enum.Values {
				if member.Name == "" {
					t.Errorf("%s: member for value %v has an empty name", object.Name, member.Value)
				}
				if _, found := seen[member.Name]; found {
					t.Errorf("%s: two members are named %q", object.Name, fmt.Sprint(member.Name))
				}
				seen[member.Name] = struct{}{}
			}
		})
	}
}
