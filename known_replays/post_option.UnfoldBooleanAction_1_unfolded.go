// pkg: internal/veneers/option
package option

import (
	"testing"

	"github.com/grafana/cog/internal/ast"
)

// unfold_boolean, then add_comments on each of the two options it produced: they share the Comments
// backing array (spare capacity), so the second add_comments overwrites the first one's comment
func TestGovcReplay(t *testing.T) {
	comments := make([]string, 1, 4)
	comments[0] = "original"
	arg := ast.Argument{Name: "editable", Type: ast.Bool()}
	opt := ast.Option{
		Name: "editable", Comments: comments, Args: []ast.Argument{arg},
		Assignments: []ast.Assignment{ast.ArgumentAssignment(ast.Path{{Identifier: "editable", Type: ast.Bool()}}, arg)},
	}
	b := ast.Builder{Package: "pkg", Name: "Foo"}
	out := UnfoldBooleanAction(BooleanUnfold{OptionTrue: "editable", OptionFalse: "readonly"})(ast.Schemas{}, b, opt)
	if len(out) != 2 {
		t.Fatalf("expected two options, got %d", len(out))
	}
	first := AddCommentsAction([]string{"for the true option"})(ast.Schemas{}, b, out[0])[0]
	second := AddCommentsAction([]string{"for the false option"})(ast.Schemas{}, b, out[1])[0]
	if first.Comments[len(first.Comments)-1] != "for the true option" {
		t.Errorf("comments of %s: %v", first.Name, first.Comments)
	}
	_ = second
}
