// pkg: internal/ast/compiler
package compiler

import (
	"testing"

	"github.com/grafana/cog/internal/ast"
)

// rename_object renames the object, the references, the constant references and
// the entry point, but NOT the discriminator mapping of the disjunctions the
// renamed object is a branch of: the mapping keeps naming an object that no
// longer exists.
func TestGovcReplay(t *testing.T) {
	schema := ast.NewSchema("pkg", ast.SchemaMeta{})
	schema.AddObjects(
		ast.NewObject("pkg", "Cat", ast.NewStruct(
			ast.NewStructField("kind", ast.String(ast.Value("cat")), ast.Required()),
		)),
		ast.NewObject("pkg", "Dog", ast.NewStruct(
			ast.NewStructField("kind", ast.String(ast.Value("dog")), ast.Required()),
		)),
		ast.NewObject("pkg", "Owner", ast.NewStruct(
			ast.NewStructField("pet", ast.NewDisjunction(ast.Types{
				ast.NewRef("pkg", "Cat"),
				ast.NewRef("pkg", "Dog"),
			}), ast.Required()),
		)),
	)

	passes := Passes{
		// the mapping is inferred from the schema (it could as well come from an OpenAPI discriminator)
		&DisjunctionInferMapping{},
		&RenameObject{From: ObjectReference{Package: "pkg", Object: "Cat"}, To: "Feline"},
	}

	out, err := passes.Process(ast.Schemas{schema})
	if err != nil {
		t.Fatal(err)
	}

	owner, _ := out[0].LocateObject("Owner")
	disjunction := owner.Type.Struct.Fields[0].Type.AsDisjunction()

	// sanity: the branch itself was renamed
	if got := disjunction.Branches[0].Ref.ReferredType; got != "Feline" {
		t.Fatalf("branch not renamed: %s", got)
	}
	if len(disjunction.DiscriminatorMapping) != 2 {
		t.Fatalf("unexpected mapping: %v", disjunction.DiscriminatorMapping)
	}

	for value, typeName := range disjunction.DiscriminatorMapping {
		if !out[0].HasObject(typeName) {
			t.Errorf("discriminator mapping %q → %q names an object that does not exist after rename_object (objects: Feline, Dog, Owner)", value, typeName)
		}
	}
}

// same defect once the disjunction was turned into a struct (Go, Java): the
// mapping lives in a hint, which rename_object never looks at.
func TestAuditA15_1_RenameObjectLeavesHintMappingDangling(t *testing.T) {
	schema := ast.NewSchema("pkg", ast.SchemaMeta{})
	schema.AddObjects(
		ast.NewObject("pkg", "Cat", ast.NewStruct(
			ast.NewStructField("kind", ast.String(ast.Value("cat")), ast.Required()),
		)),
		ast.NewObject("pkg", "Dog", ast.NewStruct(
			ast.NewStructField("kind", ast.String(ast.Value("dog")), ast.Required()),
		)),
		ast.NewObject("pkg", "Owner", ast.NewStruct(
			ast.NewStructField("pet", ast.NewDisjunction(ast.Types{
				ast.NewRef("pkg", "Cat"),
				ast.NewRef("pkg", "Dog"),
			}), ast.Required()),
		)),
	)

	passes := Passes{
		&DisjunctionInferMapping{},
		&DisjunctionToType{},
		&RenameObject{From: ObjectReference{Package: "pkg", Object: "Cat"}, To: "Feline"},
	}

	out, err := passes.Process(ast.Schemas{schema})
	if err != nil {
		t.Fatal(err)
	}

	catOrDog, found := out[0].LocateObject("CatOrDog")
	if !found {
		t.Fatal("CatOrDog not found")
	}

	hint := catOrDog.Type.Hints[ast.HintDiscriminatedDisjunctionOfRefs].(ast.DisjunctionType)
	for value, typeName := range hint.DiscriminatorMapping {
		if !out[0].HasObject(typeName) {
			t.Errorf("hint mapping %q → %q names an object that does not exist after rename_object", value, typeName)
		}
	}
}
