// pkg: internal/veneers/rewrite
package rewrite

import (
	"fmt"
	"strings"
	"testing"

	"github.com/grafana/cog/internal/ast"
	"github.com/grafana/cog/internal/veneers/builder"
	"github.com/grafana/cog/internal/veneers/option"
)

// auditA16Summary prints, for every option of a builder: its arguments and, for each assignment,
// the path, the method and the argument it assigns.
func auditA16Summary(b ast.Builder) string {
	var out []string
	for _, opt := range b.Options {
		var args []string
		for _, arg := range opt.Args {
			args = append(args, fmt.Sprintf("%s %s", arg.Name, arg.Type.Kind))
		}
		line := fmt.Sprintf("%s.%s(%s):", b.Name, opt.Name, strings.Join(args, ", "))
		for _, assignment := range opt.Assignments {
			value := "<none>"
			if assignment.Value.Argument != nil {
				value = fmt.Sprintf("%s %s", assignment.Value.Argument.Name, assignment.Value.Argument.Type.Kind)
			}
			line += fmt.Sprintf(" [%s %s= %s]", assignment.Path.String(), assignment.Method, value)
		}
		out = append(out, line)
	}
	return strings.Join(out, "\n")
}

func auditA16Find(t *testing.T, builders []ast.Builder, pkg string, name string) ast.Builder {
	t.Helper()
	for _, b := range builders {
		if b.Package == pkg && b.Name == name {
			return b
		}
	}
	t.Fatalf("builder %s.%s not found", pkg, name)
	return ast.Builder{}
}

func auditA16MergeSchemas() ast.Schemas {
	schema := ast.NewSchema("dash", ast.SchemaMeta{})
	schema.AddObject(ast.NewObject("dash", "FieldConfig", ast.NewStruct(
		ast.NewStructField("unit", ast.String()),
		ast.NewStructField("tags", ast.NewArray(ast.String())),
	)))
	schema.AddObject(ast.NewObject("dash", "Panel", ast.NewStruct(
		ast.NewStructField("title", ast.String()),
		ast.NewStructField("fieldConfig", ast.NewRef("dash", "FieldConfig")),
	)))
	return ast.Schemas{schema}
}

// C17: "builders and options not selected by a rule are unchanged".
//
// merge_into (mergeBuilderInto) copies the options of the source builder by plain struct
// assignment: the merged option shares its Args backing array and the *Argument held by each of
// its assignments with the option of the source builder, which stays in the builder list.
// An option rule that only selects the merged option (by_builder Panel.unit / Panel.tags) then
// rewrites the FieldConfig builder too.
func TestGovcReplay(t *testing.T) {
	schemas := auditA16MergeSchemas()

	mergeOnly := NewRewrite([]LanguageRules{{
		Language: AllLanguages,
		BuilderRules: []builder.RewriteRule{
			builder.MergeInto(builder.ByName("dash", "Panel"), "FieldConfig", "fieldConfig", nil, nil),
		},
	}}, Config{})
	reference, err := mergeOnly.ApplyTo(schemas, (&ast.BuilderGenerator{}).FromAST(schemas), "go")
	if err != nil {
		t.Fatal(err)
	}
	expectedSource := auditA16Summary(auditA16Find(t, reference, "dash", "FieldConfig"))

	for _, testCase := range []struct {
		name string
		rule option.RewriteRule
	}{
		{"rename_arguments", option.RenameArguments(option.ByBuilder("dash", "Panel", "unit"), []string{"u"})},
		{"array_to_append", option.ArrayToAppend(option.ByBuilder("dash", "Panel", "tags"))},
	} {
		t.Run(testCase.name, func(t *testing.T) {
			rewriter := NewRewrite([]LanguageRules{{
				Language: AllLanguages,
				BuilderRules: []builder.RewriteRule{
					builder.MergeInto(builder.ByName("dash", "Panel"), "FieldConfig", "fieldConfig", nil, nil),
				},
				// only selects options of the builder named Panel
				OptionRules: []option.RewriteRule{testCase.rule},
			}}, Config{})

			result, err := rewriter.ApplyTo(schemas, (&ast.BuilderGenerator{}).FromAST(schemas), "go")
			if err != nil {
				t.Fatal(err)
			}

			gotSource := auditA16Summary(auditA16Find(t, result, "dash", "FieldConfig"))
			if gotSource != expectedSource {
				t.Errorf("an option rule selecting only builder Panel changed builder FieldConfig.\n--- without the option rule:\n%s\n--- with it:\n%s", expectedSource, gotSource)
			}
		})
	}
}
