// pkg: internal/jsonschema
package jsonschema

import (
	"fmt"

	"github.com/grafana/cog/internal/ast"
	"strings"
	"testing"
)

func TestGovcDefaultNumber(t *testing.T) {
	doc := `{"$schema":"http://json-schema.org/draft-07/schema#","type":"object","properties":{"n":{"type":"integer","default":42},"f":{"type":"number","default":1.5},"s":{"type":"string","default":"x"}}}`
	schema, err := GenerateAST(strings.NewReader(doc), Config{Package: "pkg"})
	if err != nil {
		t.Fatal(err)
	}
	checked := 0
	schema.Objects.Iterate(func(_ string, obj ast.Object) {
		if !obj.Type.IsStruct() {
			return
		}
		for _, f := range obj.Type.Struct.Fields {
			checked++
			d := f.Type.Default
			switch d.(type) {
			case int64, float64, string, bool, nil:
			default:
				t.Errorf("field %s: default %#v has Go type %T (a Go literal rendered with %%#v reads %s)", f.Name, d, d, fmt.Sprintf("%#v", d))
			}
		}
	})
	if checked == 0 {
		t.Fatal("no struct field found")
	}
}
