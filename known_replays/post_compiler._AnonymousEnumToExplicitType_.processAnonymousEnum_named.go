// pkg: internal/ast/compiler
package compiler

import (
	"testing"

	"github.com/grafana/cog/internal/ast"
	"github.com/stretchr/testify/require"
)

// seedC06dFindAnonymousEnums reports the path of every enum that isn't the
// top-level type of a named object.
func seedC06dFindAnonymousEnums(path string, def ast.Type, topLevel bool, found *[]string) {
	switch {
	case def.IsEnum():
		if !topLevel {
			*found = append(*found, path)
		}
	case def.IsArray():
		seedC06dFindAnonymousEnums(path+"[]", def.AsArray().ValueType, false, found)
	case def.IsMap():
		seedC06dFindAnonymousEnums(path+"<index>", def.AsMap().IndexType, false, found)
		seedC06dFindAnonymousEnums(path+"<value>", def.AsMap().ValueType, false, found)
	case def.IsStruct():
		for _, field := range def.AsStruct().Fields {
			seedC06dFindAnonymousEnums(path+"."+field.Name, field.Type, false, found)
		}
	case def.IsDisjunction():
		for _, branch := range def.AsDisjunction().Branches {
			seedC06dFindAnonymousEnums(path+"|", branch, false, found)
		}
	case def.IsIntersection():
		for _, branch := range def.AsIntersection().Branches {
			seedC06dFindAnonymousEnums(path+"&", branch, false, found)
		}
	}
}

// The part of the Go/Java/PHP chains that is responsible for "every enum is a named object".
func seedC06dEnumChain() Passes {
	return Passes{
		&DisjunctionWithNullToOptional{},
		&DisjunctionOfConstantsToEnum{},
		&AnonymousEnumToExplicitType{},
	}
}

func TestGovcReplay(t *testing.T) {
	req := require.New(t)

	schema := ast.NewSchema("seed", ast.SchemaMeta{})
	schema.AddObjects(
		// Panel.type is an anonymous enum: the chain wants to name it "PanelType"...
		ast.NewObject("seed", "Panel", ast.NewStruct(
			ast.NewStructField("title", ast.String(), ast.Required()),
			ast.NewStructField("type", ast.NewDisjunction([]ast.Type{
				ast.String(ast.Value("graph")),
				ast.String(ast.Value("table")),
			}), ast.Required()),
		)),
		// ... but the schema happens to define an unrelated "PanelType" object.
		ast.NewObject("seed", "PanelType", ast.NewStruct(
			ast.NewStructField("id", ast.String(), ast.Required()),
		)),
	)

	processed, err := seedC06dEnumChain().Process(ast.Schemas{schema})
	req.NoError(err)
	req.Len(processed, 1)

	var anonymousEnums []string
	processed[0].Objects.Iterate(func(_ string, object ast.Object) {
		seedC06dFindAnonymousEnums(object.Name, object.Type, true, &anonymousEnums)
	})

	req.Empty(anonymousEnums, "anonymous enums remain after the chain: generators for Go, Java and PHP can't handle them")
}
