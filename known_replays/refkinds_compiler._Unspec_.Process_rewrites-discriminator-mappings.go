// pkg: internal/ast/compiler
package compiler

import (
	"testing"

	"github.com/grafana/cog/internal/ast"
)

// unspec renames the object `spec`; a discriminator mapping that names it has to follow
func TestGovcReplay(t *testing.T) {
	schema := ast.NewSchema("dash", ast.SchemaMeta{})
	schema.AddObject(ast.NewObject("dash", "spec", ast.NewStruct(ast.NewStructField("kind", ast.String()))))
	schema.AddObject(ast.NewObject("dash", "Other", ast.NewStruct(ast.NewStructField("kind", ast.String()))))
	union := ast.NewDisjunction([]ast.Type{ast.NewRef("dash", "spec"), ast.NewRef("dash", "Other")})
	union.Disjunction.Discriminator = "kind"
	union.Disjunction.DiscriminatorMapping = map[string]string{"s": "spec", "o": "Other"}
	schema.AddObject(ast.NewObject("dash", "Holder", ast.NewStruct(ast.NewStructField("v", union))))
	out, err := (&Unspec{}).Process([]*ast.Schema{schema})
	if err != nil {
		t.Fatal(err)
	}
	mapping := out[0].Objects.Get("Holder").Type.Struct.Fields[0].Type.Disjunction.DiscriminatorMapping
	for value, name := range mapping {
		if !out[0].Objects.Has(name) {
			t.Errorf("discriminator mapping %q -> %q names an object that does not exist after unspec", value, name)
		}
	}
}
