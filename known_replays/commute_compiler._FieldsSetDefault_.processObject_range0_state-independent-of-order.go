// pkg: internal/ast/compiler
package compiler

import (
	"fmt"
	"testing"

	"github.com/grafana/cog/internal/ast"
)

// fields_set_default with two keys that differ only in letter case (both match the field): which default
// wins depends on map iteration order
func TestGovcReplay(t *testing.T) {
	seen := map[string]bool{}
	for i := 0; i < 200; i++ {
		schema := ast.NewSchema("pkg", ast.SchemaMeta{})
		schema.AddObject(ast.NewObject("pkg", "Foo", ast.NewStruct(ast.NewStructField("bar", ast.String()))))
		pass := &FieldsSetDefault{DefaultValues: map[FieldReference]any{
			{Package: "pkg", Object: "Foo", Field: "bar"}: "one",
			{Package: "pkg", Object: "foo", Field: "BAR"}: "two",
			{Package: "pkg", Object: "FOO", Field: "Bar"}: "three",
		}}
		out, err := pass.Process([]*ast.Schema{schema})
		if err != nil {
			t.Fatal(err)
		}
		seen[fmt.Sprint(out[0].Objects.Get("Foo").Type.Struct.Fields[0].Type.Default)] = true
	}
	if len(seen) != 1 {
		t.Fatalf("the same configuration set %d different defaults: %v", len(seen), seen)
	}
}
