// pkg: internal/jsonschema
package jsonschema

import (
	"encoding/json"
	"strings"
	"testing"

	"github.com/grafana/cog/internal/ast"
)

func TestGovcDefaultList(t *testing.T) {
	doc := `{"$schema":"http://json-schema.org/draft-07/schema#","type":"object","properties":{"l":{"type":"array","items":{"type":"integer"},"default":[1,2]}}}`
	schema, err := GenerateAST(strings.NewReader(doc), Config{Package: "pkg"})
	if err != nil {
		t.Fatal(err)
	}
	checked := 0
	schema.Objects.Iterate(func(_ string, obj ast.Object) {
		if !obj.Type.IsStruct() {
			return
		}
		for _, f := range obj.Type.Struct.Fields {
			list, ok := f.Type.Default.([]any)
			if !ok {
				continue
			}
			for _, item := range list {
				checked++
				if n, isNumber := item.(json.Number); isNumber {
					t.Errorf("field %s: list default holds json.Number(%q) instead of a Go number", f.Name, string(n))
				}
			}
		}
	})
	if checked == 0 {
		t.Fatal("no list default found")
	}
}
