// pkg: internal/ast/compiler
package compiler

import (
	"testing"

	"github.com/grafana/cog/internal/ast"
)

// unspec renames the object `spec` to the package name; a reference to it (and the entry point) must follow
func TestGovcReplay(t *testing.T) {
	schema := ast.NewSchema("dash", ast.SchemaMeta{})
	schema.AddObject(ast.NewObject("dash", "spec", ast.NewStruct(ast.NewStructField("title", ast.String()))))
	schema.AddObject(ast.NewObject("dash", "Wrapper", ast.NewStruct(ast.NewStructField("inner", ast.NewRef("dash", "spec")))))
	schema.EntryPoint = "spec"
	schema.EntryPointType = ast.NewRef("dash", "spec")
	out, err := (&Unspec{}).Process([]*ast.Schema{schema})
	if err != nil {
		t.Fatal(err)
	}
	s := out[0]
	ref := s.Objects.Get("Wrapper").Type.Struct.Fields[0].Type.Ref
	if !s.Objects.Has(ref.ReferredType) {
		t.Errorf("Wrapper.inner refers to %s.%s, which does not exist", ref.ReferredPkg, ref.ReferredType)
	}
	if s.EntryPoint != "" && !s.Objects.Has(s.EntryPoint) {
		t.Errorf("entry point %q does not exist", s.EntryPoint)
	}
	if s.EntryPointType.IsRef() && !s.Objects.Has(s.EntryPointType.Ref.ReferredType) {
		t.Errorf("entry point type refers to %q, which does not exist", s.EntryPointType.Ref.ReferredType)
	}
}
