// pkg: internal/veneers/rewrite
package rewrite

import (
	"testing"

	"github.com/grafana/cog/internal/ast"
	"github.com/grafana/cog/internal/veneers/builder"
	"github.com/grafana/cog/internal/veneers/option"
)

func auditA16ComposeSchemas() ast.Schemas {
	dashboard := ast.NewSchema("dashboard", ast.SchemaMeta{})
	dashboard.AddObject(ast.NewObject("dashboard", "Panel", ast.NewStruct(
		ast.NewStructField("type", ast.String(), ast.Required()),
		ast.NewStructField("title", ast.String()),
		ast.NewStructField("options", ast.Any()),
	)))

	panelSchema := func(pkg string) *ast.Schema {
		schema := ast.NewSchema(pkg, ast.SchemaMeta{
			Kind:       ast.SchemaKindComposable,
			Variant:    ast.SchemaVariantPanel,
			Identifier: pkg,
		})
		schema.AddObject(ast.NewObject(pkg, "Options", ast.NewStruct(
			ast.NewStructField("legend", ast.Bool()),
		)))
		return schema
	}

	return ast.Schemas{dashboard, panelSchema("timeseries"), panelSchema("stat")}
}

// C17: "builders and options not selected by a rule are unchanged".
//
// compose (composeBuilderForType) re-adds the options of the source builder to every composed
// builder with `newBuilder.Options = append(newBuilder.Options, panelOpt)`: the Args backing array
// and the *Argument of each assignment are the source builder's, so they are shared by the source
// builder and by the composed builder of every plugin. rename_arguments restricted to the
// timeseries Panel builder renames the argument of the stat Panel builder and of dashboard.Panel.
func TestGovcReplay(t *testing.T) {
	schemas := auditA16ComposeSchemas()

	compose := builder.ComposeBuilders(builder.ByVariant(ast.SchemaVariantPanel), builder.CompositionConfig{
		SourceBuilderName:        "dashboard.Panel",
		PluginDiscriminatorField: "type",
		CompositionMap:           map[string]string{"Options": "options"},
	})

	composeOnly := NewRewrite([]LanguageRules{{
		Language:     AllLanguages,
		BuilderRules: []builder.RewriteRule{compose},
	}}, Config{})
	reference, err := composeOnly.ApplyTo(schemas, (&ast.BuilderGenerator{}).FromAST(schemas), "go")
	if err != nil {
		t.Fatal(err)
	}

	rewriter := NewRewrite([]LanguageRules{{
		Language:     AllLanguages,
		BuilderRules: []builder.RewriteRule{compose},
		OptionRules: []option.RewriteRule{
			// selects the option `title` of the builder named Panel in package timeseries only
			option.RenameArguments(option.ByBuilder("timeseries", "Panel", "title"), []string{"t"}),
		},
	}}, Config{})
	result, err := rewriter.ApplyTo(schemas, (&ast.BuilderGenerator{}).FromAST(schemas), "go")
	if err != nil {
		t.Fatal(err)
	}

	// sanity: the selected builder was rewritten
	if got := auditA16Summary(auditA16Find(t, result, "timeseries", "Panel")); got == auditA16Summary(auditA16Find(t, reference, "timeseries", "Panel")) {
		t.Fatalf("the selected option was not renamed:\n%s", got)
	}

	for _, pkg := range []string{"stat", "dashboard"} {
		expected := auditA16Summary(auditA16Find(t, reference, pkg, "Panel"))
		got := auditA16Summary(auditA16Find(t, result, pkg, "Panel"))
		if got != expected {
			t.Errorf("rename_arguments by_builder timeseries Panel.title changed builder %s.Panel.\n--- without the option rule:\n%s\n--- with it:\n%s", pkg, expected, got)
		}
	}
}
