#!/bin/sh
# seedcheck.sh <seed-id> <worktree> <property> : confirm a seeded change and run the property check against it.
set -u
ID=$1; WT=$2; PROP=$3
export GOFLAGS=-mod=mod GOPROXY=off GOSUMDB=off GOTOOLCHAIN=local GOCACHE=/tmp/seedcheck-gocache
D=/verif/seeded/$ID; mkdir -p $D
(cd $WT && git diff -- . ':(exclude)*_test.go' ':(exclude)seed_patch.diff' | grep -v '^diff --git a/.*zz_contracts' > /dev/null)
(cd $WT && git diff HEAD --diff-filter=M -- '*.go' ':(exclude)*_test.go' > $D/patch.diff)
DEMO=$(cd $WT && git status --porcelain | grep '^??' | awk '{print $2}' | grep '_test.go$' | head -1)
cp $WT/$DEMO $D/ 2>/dev/null
PKG=./$(dirname $DEMO)
echo "== demo file: $DEMO (package $PKG)"
echo "== 1. demo WITH the change (must fail)"
(cd $WT && go test -vet=off -count=1 $PKG 2>&1 | tail -5); 
echo "== 2. suite WITH the change, demo excluded (must pass)"
(cd $WT && mv $DEMO /tmp/seed_demo_hold.go && go build ./... && go test -vet=off -count=1 ./... 2>&1 | grep -v "^ok\|no test files" | head -10; echo "suite-exit-marker"; mv /tmp/seed_demo_hold.go $DEMO)
echo "== 3. demo WITHOUT the change (must pass)"
(cd $WT && git apply -R $D/patch.diff && go test -vet=off -count=1 $PKG 2>&1 | tail -3; git apply $D/patch.diff)
echo "== 4. property check against the change applied to /repo"
if [ -n "$(git -C /repo status --porcelain)" ]; then echo "/repo not clean, skipping"; exit 3; fi
git -C /repo apply $D/patch.diff && (cd /verif && GOVC_NO_EVIDENCE=1 ./check $PROP quick; echo "check-exit=$?") ; git -C /repo checkout -- . 
rm -rf /tmp/seedcheck-gocache
