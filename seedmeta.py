#!/usr/bin/env python3
# seedmeta.py <id> <property> <check_exit> <summary> <needs> <caught_by;...> [history]
import json,sys,os,glob
sid,prop,ex,summary,needs,caught=sys.argv[1:7]
hist=sys.argv[7] if len(sys.argv)>7 else ""
d='/verif/seeded/'+sid
demo=[os.path.basename(p) for p in glob.glob(d+'/*_test.go')]
m={"property":prop,"summary":summary,"needs":needs,"demo":", ".join(demo),
 "caught_by":[c for c in caught.split(';') if c],"check_exit":int(ex),
 "what_was_run":"seedcheck.sh: (1) demo with the change fails, (2) go build ./... and go test -vet=off -count=1 ./... with the change (demo moved aside) pass, (3) demo without the change passes, (4) git -C /repo apply patch.diff; ./check <prop> quick; git -C /repo checkout -- .",
 "produced_by":"independent sub-agent given only the property text and a scratch worktree"}
if hist: m["history"]=hist
json.dump(m,open(d+'/meta.json','w'),indent=1)
